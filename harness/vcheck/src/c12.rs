//! C12 — RPC delivers exactly the bytes sent; damaged or short frames are rejected.
//!
//! Engine E4 + H3. (a) every message of a value family travels client -> in-process
//! dispatch -> real handler -> back, and every `ErrorCode` x message text travels back as a
//! handler error; (b) for every frame of the family up to a size bound ALL single-bit
//! flips, ALL truncations and a set of extensions are fed to the real `DataView::using`,
//! whose verdict must coincide with an independent reference predicate (bitwise CRC-32,
//! minimum length); CRC-valid frames shorter than the archived root are generated
//! separately; (c) the same hostile frames are handed to a typed handler through
//! `dispatch_raw` and must be refused as InvalidPayload without running the handler.

use std::cell::RefCell;
use std::hash::Hash;
use std::net::SocketAddr;

use datacake_rpc::{
    Channel,
    DataView,
    ErrorCode,
    Handler,
    Request,
    RpcClient,
    RpcService,
    Server,
    ServiceRegistry,
    Status,
};
use rkyv::{AlignedVec, Archive, Deserialize, Serialize};
use vkit::quiet::catch;
use vkit::{fp128, Report, Stats, Tier, J};

use crate::c13::block_on;

// ------------------------------------------------------------------ message family

#[repr(C)]
#[derive(Serialize, Deserialize, Archive, PartialEq, Eq, Debug, Clone, Hash)]
#[archive(check_bytes)]
pub struct Fixed {
    pub a: u32,
    pub b: u64,
    pub c: i16,
    pub d: [u8; 6],
}

#[repr(C)]
#[derive(Serialize, Deserialize, Archive, PartialEq, Eq, Debug, Clone, Hash)]
#[archive(check_bytes)]
pub struct Texty {
    pub name: String,
    pub blob: Vec<u8>,
    pub maybe: Option<u32>,
}

#[repr(C)]
#[derive(Serialize, Deserialize, Archive, PartialEq, Eq, Debug, Clone, Hash)]
#[archive(check_bytes)]
pub struct Item {
    pub id: u64,
    pub tags: Vec<String>,
    pub data: Option<Vec<u8>>,
}

#[repr(C)]
#[derive(Serialize, Deserialize, Archive, PartialEq, Eq, Debug, Clone, Hash)]
#[archive(check_bytes)]
pub struct Nested {
    pub items: Vec<Item>,
    pub note: Option<String>,
}

// Messages whose archived form has alignment 1 or 2 and a size that is not a multiple of 4
// (a frame layout that pads or aligns the body shows only on these).
#[repr(C)]
#[derive(Serialize, Deserialize, Archive, PartialEq, Eq, Debug, Clone, Hash)]
#[archive(check_bytes)]
pub struct Knob {
    pub channel: u8,
    pub level: u8,
    pub attempt: u8,
}

#[repr(C)]
#[derive(Serialize, Deserialize, Archive, PartialEq, Eq, Debug, Clone, Hash)]
#[archive(check_bytes)]
pub struct Half {
    pub v: u16,
}

#[repr(C)]
#[derive(Serialize, Deserialize, Archive, PartialEq, Eq, Debug, Clone, Hash)]
#[archive(check_bytes)]
pub struct Flag {
    pub on: bool,
}

#[repr(C)]
#[derive(Serialize, Deserialize, Archive, PartialEq, Eq, Debug, Clone, Hash)]
#[archive(check_bytes)]
pub struct Five {
    pub bytes: [u8; 5],
    pub mode: Mode,
}

#[repr(u8)]
#[derive(Serialize, Deserialize, Archive, PartialEq, Eq, Debug, Clone, Copy, Hash)]
#[archive(check_bytes)]
pub enum Mode {
    Off,
    Low,
    High,
}

/// Shared pointers: the serializer keeps a registry of `Arc` pointees per message; the
/// same allocation appears twice inside one message and again in later messages (added after
/// C12-k).
#[repr(C)]
#[derive(Serialize, Deserialize, Archive, PartialEq, Eq, Debug, Clone, Hash)]
#[archive(check_bytes)]
pub struct SharedDocs {
    pub head: std::sync::Arc<String>,
    pub docs: Vec<std::sync::Arc<String>>,
    pub n: u32,
}

#[repr(C)]
#[derive(Serialize, Deserialize, Archive, PartialEq, Eq, Debug, Clone, Hash)]
#[archive(check_bytes)]
pub struct FailWith {
    pub code: u8,
    pub message: String,
}

thread_local! {
    /// What the handlers saw: (fingerprint of the deserialised value, invocation count).
    static SEEN: RefCell<(Vec<u128>, u64)> = RefCell::new((Vec::new(), 0));
}

fn note_seen<T: Hash>(v: &T) {
    SEEN.with(|s| {
        let mut s = s.borrow_mut();
        s.0.push(fp128(v));
        s.1 += 1;
    });
}

fn take_seen() -> (Vec<u128>, u64) {
    SEEN.with(|s| std::mem::take(&mut *s.borrow_mut()))
}

fn invocations() -> u64 {
    SEEN.with(|s| s.borrow().1)
}

pub struct EchoSvc;
impl RpcService for EchoSvc {
    fn register_handlers(registry: &mut ServiceRegistry<Self>) {
        registry.add_handler::<Fixed>();
        registry.add_handler::<Texty>();
        registry.add_handler::<Nested>();
        registry.add_handler::<FailWith>();
        registry.add_handler::<Knob>();
        registry.add_handler::<Half>();
        registry.add_handler::<Flag>();
        registry.add_handler::<Five>();
        registry.add_handler::<SharedDocs>();
    }
}

macro_rules! echo {
    ($t:ty) => {
        #[datacake_rpc::async_trait]
        impl Handler<$t> for EchoSvc {
            type Reply = $t;
            async fn on_message(&self, msg: Request<$t>) -> Result<$t, Status> {
                let v: $t = msg.deserialize_view().map_err(Status::internal)?;
                note_seen(&v);
                Ok(v)
            }
        }
    };
}
echo!(Fixed);
echo!(Texty);
echo!(Nested);
echo!(Knob);
echo!(Half);
echo!(Flag);
echo!(Five);
echo!(SharedDocs);

fn code_of(n: u8) -> ErrorCode {
    match n {
        0 => ErrorCode::ServiceUnavailable,
        1 => ErrorCode::InternalError,
        2 => ErrorCode::InvalidPayload,
        3 => ErrorCode::ConnectionError,
        _ => ErrorCode::Timeout,
    }
}

#[datacake_rpc::async_trait]
impl Handler<FailWith> for EchoSvc {
    type Reply = Fixed;
    async fn on_message(&self, msg: Request<FailWith>) -> Result<Fixed, Status> {
        let v: FailWith = msg.deserialize_view().map_err(Status::internal)?;
        note_seen(&v);
        Err(Status {
            code: code_of(v.code),
            message: v.message,
        })
    }
}

fn addr() -> SocketAddr {
    SocketAddr::from(([10, 0, 0, 2], 7000))
}

fn sizes(tier: Tier) -> Vec<usize> {
    let mut v = vec![0, 1, 3, 4, 7, 8, 9, 15, 16, 17, 31, 32, 33, 255, 256, 1023, 4096, 65536];
    if tier.is_thorough() {
        v.extend([2, 5, 6, 10, 11, 12, 13, 14, 63, 64, 65, 127, 128, 129, 511, 512, 513, 16383, 16384, 16385, 262144, 1 << 20]);
    }
    v
}

fn blob(n: usize) -> Vec<u8> {
    (0..n).map(|i| (i * 31 % 251) as u8).collect()
}

fn fixed_values() -> Vec<Fixed> {
    vec![
        Fixed { a: 0, b: 0, c: 0, d: [0; 6] },
        Fixed { a: u32::MAX, b: u64::MAX, c: i16::MIN, d: [0xFF; 6] },
        Fixed { a: 0x0102_0304, b: 0x1122_3344_5566_7788, c: -2, d: [1, 2, 3, 4, 5, 6] },
    ]
}

fn texty_values(sizes: &[usize]) -> Vec<Texty> {
    let mut v = vec![
        Texty { name: String::new(), blob: vec![], maybe: None },
        Texty { name: "x".into(), blob: vec![0], maybe: Some(0) },
        Texty { name: "ünïcødé ✓".into(), blob: vec![0xFF; 3], maybe: Some(u32::MAX) },
    ];
    for &n in sizes {
        v.push(Texty { name: "n".repeat(n % 40), blob: blob(n), maybe: Some(n as u32) });
    }
    v
}

fn nested_values(sizes: &[usize]) -> Vec<Nested> {
    let mut v = vec![
        Nested { items: vec![], note: None },
        Nested { items: vec![Item { id: 0, tags: vec![], data: None }], note: Some(String::new()) },
    ];
    for &n in sizes.iter().filter(|n| **n <= 4096) {
        v.push(Nested {
            items: (0..(n % 7 + 1))
                .map(|i| Item {
                    id: (n as u64) << 32 | i as u64,
                    tags: (0..i % 3).map(|t| format!("tag-{t}-{n}")).collect(),
                    data: if i % 2 == 0 { Some(blob(n / (i + 1))) } else { None },
                })
                .collect(),
            note: Some("z".repeat(n % 300)),
        });
    }
    v
}

// ------------------------------------------------------------------ (a) round trips

async fn round_trips(tier: Tier, st: &mut Stats) {
    datacake_rpc::verif::set_in_process(true);
    datacake_rpc::verif::reset();
    let server = Server::listen(addr()).await.expect("listen");
    server.add_service(EchoSvc);
    let client = RpcClient::<EchoSvc>::new(Channel::connect(addr()));
    let sizes = sizes(tier);

    macro_rules! trip {
        ($values:expr, $kind:expr) => {
            for v in $values {
                st.inc("round_trips");
                take_seen();
                let res = client.send(&v).await;
                let (seen, calls) = take_seen();
                let case = || J::obj().set("kind", $kind).set("value", format!("{:.300?}", v));
                match res {
                    Err(s) => st.violation(
                        &format!("round-trip-failed/{}", $kind),
                        || format!("sending a valid {} failed: {s:?}", $kind),
                        case,
                    ),
                    Ok(view) => {
                        let back = view.deserialize_view();
                        if back.as_ref().ok() != Some(&v) {
                            st.violation(
                                &format!("client-sees-different-reply/{}", $kind),
                                || format!("reply differs from what the handler returned for {:.200?}", v),
                                case,
                            );
                        }
                    },
                }
                if calls != 1 || seen != vec![fp128(&v)] {
                    st.violation(
                        &format!("handler-saw-different-value/{}", $kind),
                        || format!("handler ran {calls} time(s) and saw a value different from the one sent"),
                        case,
                    );
                }
            }
        };
    }
    trip!(fixed_values(), "fixed");
    trip!(texty_values(&sizes), "texty");
    trip!(nested_values(&sizes), "nested");
    let bytes = [0u8, 1, 3, 7, 9, 0x7F, 0x80, 0xFF];
    let mut knobs: Vec<Knob> = Vec::new();
    for a in bytes {
        for b in bytes {
            for c in bytes {
                knobs.push(Knob { channel: a, level: b, attempt: c });
            }
        }
    }
    trip!(knobs, "tiny-3-bytes");
    trip!([0u16, 1, 0x00FF, 0x0100, 1801, 0x7FFF, 0x8000, u16::MAX].map(|v| Half { v }), "tiny-u16");
    trip!([Flag { on: false }, Flag { on: true }], "tiny-bool");
    let fives: Vec<Five> = [Mode::Off, Mode::Low, Mode::High]
        .into_iter()
        .flat_map(|mode| [[0u8; 5], [0xFF; 5], [1, 2, 3, 4, 5], [9, 0, 0, 0, 7]].map(move |bytes| Five { bytes, mode }))
        .collect();
    trip!(fives, "tiny-6-bytes");
    {
        use std::sync::Arc;
        let a = Arc::new("alpha".to_string());
        let b = Arc::new("bravo".to_string());
        let c = Arc::new("c".repeat(70));
        let shared = vec![
            SharedDocs { head: a.clone(), docs: vec![a.clone()], n: 1 },
            SharedDocs { head: b.clone(), docs: vec![b.clone(), a.clone()], n: 2 },
            SharedDocs { head: a.clone(), docs: vec![a.clone(), a.clone(), b.clone()], n: 3 },
            SharedDocs { head: b.clone(), docs: vec![b.clone(), a.clone()], n: 2 },
            SharedDocs { head: c.clone(), docs: vec![], n: 4 },
            SharedDocs { head: c.clone(), docs: vec![], n: 4 },
            SharedDocs { head: a.clone(), docs: vec![c.clone(), b.clone(), a.clone()], n: 5 },
            SharedDocs { head: Arc::new("fresh".to_string()), docs: vec![Arc::new("fresh".to_string())], n: 6 },
        ];
        trip!(shared, "shared-pointers");
    }

    // handler errors: every code x message text
    for code in 0..5u8 {
        for text in [String::new(), "x".to_string(), "e".repeat(300), "ünïcødé\n\"quoted\"".to_string()] {
            st.inc("error_round_trips");
            let res = client.send(&FailWith { code, message: text.clone() }).await;
            let case = || J::obj().set("kind", "handler-error").set("code", code).set("message_len", text.len());
            match res {
                Ok(_) => st.violation("handler-error-arrived-as-ok", || "handler returned Err, client saw Ok".to_string(), case),
                Err(s) => {
                    if s.code != code_of(code) || s.message != text {
                        st.violation(
                            "handler-error-altered",
                            || format!("handler returned ({:?}, {:?}) but the client saw ({:?}, {:?})", code_of(code), text, s.code, s.message),
                            case,
                        );
                    }
                },
            }
        }
    }
    server.shutdown();
}

// ------------------------------------------------------------------ (b) frames

/// Independent CRC-32 (IEEE, reflected, bit by bit).
pub fn crc32_bitwise(data: &[u8]) -> u32 {
    let mut crc = 0xFFFF_FFFFu32;
    for &b in data {
        crc ^= b as u32;
        for _ in 0..8 {
            crc = if crc & 1 != 0 { (crc >> 1) ^ 0xEDB8_8320 } else { crc >> 1 };
        }
    }
    !crc
}

fn must_reject<T: Archive>(frame: &[u8]) -> bool {
    if frame.len() < 4 {
        return true;
    }
    let (body, trailer) = frame.split_at(frame.len() - 4);
    let claimed = u32::from_le_bytes(trailer.try_into().unwrap());
    crc32_bitwise(body) != claimed || body.len() < std::mem::size_of::<T::Archived>()
}

fn aligned(frame: &[u8]) -> AlignedVec {
    let mut v = AlignedVec::with_capacity(frame.len().max(1));
    v.extend_from_slice(frame);
    v
}

#[derive(Debug, PartialEq)]
enum Verdict {
    Accepted,
    Rejected,
    Panicked(String),
}

fn using<T>(frame: &[u8]) -> (Verdict, Option<DataView<T>>)
where
    T: Archive,
    T::Archived: 'static,
{
    match catch(|| DataView::<T>::using(aligned(frame))) {
        Ok(Ok(v)) => (Verdict::Accepted, Some(v)),
        Ok(Err(_)) => (Verdict::Rejected, None),
        Err(p) => (Verdict::Panicked(p), None),
    }
}

fn hex(frame: &[u8]) -> String {
    frame.iter().map(|b| format!("{b:02x}")).collect()
}

fn frame_case(kind: &str, mutation: &str, frame: &[u8]) -> J {
    J::obj()
        .set("kind", kind)
        .set("mutation", mutation)
        .set("frame_hex", hex(&frame[..frame.len().min(400)]))
        .set("frame_len", frame.len())
}

fn check_frame<T>(kind: &str, mutation: &str, shape: &str, frame: &[u8], original: Option<&T>, st: &mut Stats)
where
    T: Archive + PartialEq,
    T::Archived: Deserialize<T, rkyv::de::deserializers::SharedDeserializeMap> + 'static,
{
    st.inc("frames_checked");
    let reject = must_reject::<T>(frame);
    let (verdict, view) = using::<T>(frame);
    match verdict {
        Verdict::Panicked(p) => st.violation(
            &format!("view-panics/{shape}"),
            || format!("DataView::<{kind}>::using panicked on a {}-byte frame ({mutation}): {p}", frame.len()),
            || frame_case(kind, mutation, frame),
        ),
        Verdict::Accepted if reject => st.violation(
            &format!("bad-frame-accepted/{shape}"),
            || format!("DataView::<{kind}>::using accepted a {}-byte frame that must be refused ({mutation})", frame.len()),
            || frame_case(kind, mutation, frame),
        ),
        Verdict::Rejected if !reject => st.violation(
            &format!("good-frame-rejected/{shape}"),
            || format!("DataView::<{kind}>::using refused an intact {}-byte frame ({mutation})", frame.len()),
            || frame_case(kind, mutation, frame),
        ),
        Verdict::Accepted => {
            st.inc("frames_accepted");
            if let (Some(orig), Some(view)) = (original, view) {
                if view.deserialize_view().ok().as_ref() != Some(orig) {
                    st.violation(
                        "accepted-view-differs-from-original",
                        || format!("accepted frame of {kind} decodes to a different value"),
                        || frame_case(kind, mutation, frame),
                    );
                }
            }
        },
        Verdict::Rejected => st.inc("frames_rejected"),
    }
}

/// All single-bit flips, all truncations, extensions; returns the hostile frames.
fn frame_family<T>(kind: &str, frame: &[u8], original: &T, st: &mut Stats) -> Vec<(String, Vec<u8>)>
where
    T: Archive + PartialEq,
    T::Archived: Deserialize<T, rkyv::de::deserializers::SharedDeserializeMap> + 'static,
{
    let mut hostile = Vec::new();
    check_frame::<T>(kind, "intact", "intact", frame, Some(original), st);
    for bit in 0..frame.len() * 8 {
        let mut f = frame.to_vec();
        f[bit / 8] ^= 1 << (bit % 8);
        let where_ = if bit / 8 >= frame.len() - 4 { "bit-flip-in-trailer" } else { "bit-flip-in-body" };
        check_frame::<T>(kind, &format!("flip bit {bit}"), where_, &f, None, st);
        st.inc("bit_flips");
        if bit % 37 == 0 {
            hostile.push((format!("flip bit {bit}"), f));
        }
    }
    for keep in 0..frame.len() {
        let f = frame[..keep].to_vec();
        check_frame::<T>(kind, &format!("truncate to {keep}"), "truncation", &f, None, st);
        st.inc("truncations");
        hostile.push((format!("truncate to {keep}"), f));
    }
    for extra in 1..=4usize {
        for fill in [0x00u8, 0xFF, *frame.last().unwrap()] {
            let mut f = frame.to_vec();
            f.extend(std::iter::repeat(fill).take(extra));
            check_frame::<T>(kind, &format!("extend by {extra} x {fill:#04x}"), "extension", &f, None, st);
            st.inc("extensions");
            hostile.push((format!("extend by {extra} x {fill:#04x}"), f));
        }
    }
    hostile
}

/// CRC-valid frames whose body is shorter than the archived root of `T`.
fn short_valid_frames<T: Archive>() -> Vec<(String, Vec<u8>)> {
    let root = std::mem::size_of::<T::Archived>();
    let mut out = Vec::new();
    for len in 0..root {
        for (name, fill) in [("zeros", 0x00u8), ("ones", 0xFF), ("count", 0x01)] {
            let body: Vec<u8> = (0..len)
                .map(|i| if fill == 0x01 { i as u8 } else { fill })
                .collect();
            let mut f = body.clone();
            f.extend_from_slice(&crc32_bitwise(&body).to_le_bytes());
            out.push((format!("crc-valid body of {len} {name} bytes (root is {root})"), f));
        }
    }
    out
}

fn frames_part(tier: Tier, st: &mut Stats) -> Vec<(&'static str, String, Vec<u8>)> {
    let max_len = tier.pick(400, 9000);
    let mut hostile: Vec<(&'static str, String, Vec<u8>)> = Vec::new();
    let mut small_sizes: Vec<usize> = vec![0, 1, 3, 4, 7, 8, 9, 15, 16, 17, 31, 32, 33];
    if tier.is_thorough() {
        small_sizes.extend([63, 64, 65, 127, 128, 129, 255, 256, 257, 511, 512, 1000, 2048, 4000, 8000]);
    }

    macro_rules! family {
        ($t:ty, $kind:expr, $values:expr) => {
            for v in $values {
                let frame = datacake_rpc::to_view_bytes(&v).expect("serialize").to_vec();
                if frame.len() > max_len {
                    st.inc("frames_over_size_bound_skipped");
                    continue;
                }
                st.inc("base_frames");
                // reference CRC agrees with the producer on intact frames
                let (body, trailer) = frame.split_at(frame.len() - 4);
                if crc32_bitwise(body).to_le_bytes() != trailer {
                    st.violation(
                        "trailer-is-not-crc32-of-body",
                        || format!("to_view_bytes produced a trailer that is not the CRC-32 of the body for {}", $kind),
                        || frame_case($kind, "intact", &frame),
                    );
                }
                for (m, f) in frame_family::<$t>($kind, &frame, &v, st) {
                    hostile.push(($kind, m, f));
                }
            }
            for (m, f) in short_valid_frames::<$t>() {
                let shape = if f.len() == 4 && f.iter().all(|b| *b == 0) { "crc-valid-short/all-zero-4-bytes" } else { "crc-valid-short" };
                check_frame::<$t>($kind, &m, shape, &f, None, st);
                st.inc("crc_valid_short_frames");
                hostile.push(($kind, m, f));
            }
        };
    }
    family!(Fixed, "fixed", fixed_values());
    family!(Texty, "texty", texty_values(&small_sizes));
    family!(Nested, "nested", nested_values(&small_sizes));
    family!(FailWith, "fail-with", vec![FailWith { code: 1, message: "boom".into() }]);
    family!(Knob, "tiny-3-bytes", vec![Knob { channel: 7, level: 9, attempt: 3 }, Knob { channel: 0, level: 0, attempt: 0 }]);
    family!(Half, "tiny-u16", vec![Half { v: 1801 }]);
    family!(Five, "tiny-6-bytes", vec![Five { bytes: [1, 2, 3, 4, 5], mode: Mode::High }]);
    // frames larger than one 16 KiB block (a checksum computed block-wise must still cover
    // the tail, where rkyv puts the root): every bit of the first 8 and the last 128 bytes,
    // a stride through the middle, and short truncations (added after the seeded change C12-f)
    {
        let big_sizes: Vec<usize> = if tier.is_thorough() { vec![16_300, 16_400, 20_000, 33_000, 70_000, 140_000] } else { vec![16_400, 20_000, 40_000] };
        for n in big_sizes {
            let v = Texty { name: "big".into(), blob: blob(n), maybe: Some(n as u32) };
            let frame = datacake_rpc::to_view_bytes(&v).expect("serialize").to_vec();
            st.inc("base_frames");
            st.inc("large_base_frames");
            check_frame::<Texty>("texty", "intact", "intact", &frame, Some(&v), st);
            let len = frame.len();
            let mut bits: Vec<usize> = (0..64).collect();
            bits.extend((len - 128) * 8..len * 8);
            bits.extend(((64..(len - 128) * 8).step_by(tier.pick(4099, 1021))).collect::<Vec<_>>());
            for bit in bits {
                let mut f = frame.clone();
                f[bit / 8] ^= 1 << (bit % 8);
                let where_ = if bit / 8 >= len - 4 { "bit-flip-in-trailer" } else if bit / 8 >= len - 128 { "bit-flip-in-tail-of-large-body" } else { "bit-flip-in-body" };
                check_frame::<Texty>("texty", &format!("flip bit {bit} of a {len}-byte frame"), where_, &f, None, st);
                st.inc("bit_flips");
                if bit % 257 == 0 || bit / 8 >= len - 32 {
                    hostile.push(("texty", format!("flip bit {bit} of a {len}-byte frame"), f));
                }
            }
            for cut in 1..=8usize {
                let f = frame[..len - cut].to_vec();
                check_frame::<Texty>("texty", &format!("truncate a {len}-byte frame by {cut}"), "truncation", &f, None, st);
                st.inc("truncations");
            }
        }
    }
    // Status itself is what the client decodes on the error path
    {
        let v = Status::internal("some error");
        let frame = datacake_rpc::to_view_bytes(&v).expect("serialize").to_vec();
        st.inc("base_frames");
        for (m, f) in frame_family::<Status>("status", &frame, &v, st) {
            let _ = (m, f);
        }
        for (m, f) in short_valid_frames::<Status>() {
            check_frame::<Status>("status", &m, "crc-valid-short", &f, None, st);
            st.inc("crc_valid_short_frames");
        }
    }
    hostile
}

// ------------------------------------------------------------------ (c) hostile frames on the wire

async fn hostile_dispatch(hostile: &[(&'static str, String, Vec<u8>)], st: &mut Stats) {
    datacake_rpc::verif::set_in_process(true);
    datacake_rpc::verif::reset();
    let server = Server::listen(addr()).await.expect("listen");
    server.add_service(EchoSvc);
    for (kind, mutation, frame) in hostile {
        let path = match *kind {
            "fixed" => datacake_rpc::verif::uri_path_of::<EchoSvc, Fixed>(),
            "texty" => datacake_rpc::verif::uri_path_of::<EchoSvc, Texty>(),
            "nested" => datacake_rpc::verif::uri_path_of::<EchoSvc, Nested>(),
            _ => datacake_rpc::verif::uri_path_of::<EchoSvc, FailWith>(),
        };
        let reject = match *kind {
            "fixed" => must_reject::<Fixed>(frame),
            "texty" => must_reject::<Texty>(frame),
            "nested" => must_reject::<Nested>(frame),
            _ => must_reject::<FailWith>(frame),
        };
        if !reject {
            continue; // intact by coincidence: not a hostile frame
        }
        // a frame the view wrongly accepts has already been reported by part (b); handing it
        // to a handler would make that handler decode garbage (lengths of gigabytes: the
        // allocation failure aborts the whole checker instead of yielding a verdict)
        let accepted_by_view = match *kind {
            "fixed" => using::<Fixed>(frame).0 == Verdict::Accepted,
            "texty" => using::<Texty>(frame).0 == Verdict::Accepted,
            "nested" => using::<Nested>(frame).0 == Verdict::Accepted,
            _ => using::<FailWith>(frame).0 == Verdict::Accepted,
        };
        if accepted_by_view {
            st.inc("hostile_frames_not_dispatched_because_the_view_accepts_them");
            continue;
        }
        st.inc("hostile_frames_dispatched");
        let before = invocations();
        let _quiet = vkit::quiet::QuietGuard::new();
        let fut = datacake_rpc::verif::dispatch_raw(addr(), &path, frame.clone());
        let res = std::panic::AssertUnwindSafe(fut);
        let res = futures::FutureExt::catch_unwind(res).await;
        drop(_quiet);
        let after = invocations();
        let case = || frame_case(kind, mutation, frame);
        match res {
            Err(_) => st.violation(
                "server-panics-on-hostile-frame",
                || format!("handling a hostile {kind} frame ({mutation}) panicked"),
                case,
            ),
            Ok(Err(e)) => st.violation("dispatch-failed", || e.clone(), case),
            Ok(Ok((status, body))) => {
                if after != before {
                    st.violation(
                        "handler-ran-on-hostile-frame",
                        || format!("the handler ran on a hostile {kind} frame ({mutation})"),
                        case,
                    );
                }
                let decoded = DataView::<Status>::using(aligned(&body))
                    .ok()
                    .and_then(|v| v.deserialize_view().ok());
                let ok = status == 400 && matches!(&decoded, Some(s) if s.code == ErrorCode::InvalidPayload);
                if !ok {
                    st.violation(
                        "hostile-frame-not-refused-as-invalid-payload",
                        || format!("hostile {kind} frame ({mutation}) answered HTTP {status} {decoded:?}"),
                        case,
                    );
                } else {
                    st.inc("hostile_frames_refused");
                }
            },
        }
    }
    server.shutdown();
}

pub fn run(tier: Tier) -> i32 {
    let mut report = Report::new("C12", tier, "exploration");
    let mut st = Stats::default();
    block_on(round_trips(tier, &mut st));
    let hostile = frames_part(tier, &mut st);
    block_on(hostile_dispatch(&hostile, &mut st));

    st.sample(|| frame_case("fixed", "4-byte all-zero frame", &[0, 0, 0, 0]));
    if let Some((k, m, f)) = hostile.get(hostile.len() / 2) {
        st.sample(|| frame_case(k, m, f));
    }
    let trips = st.get("round_trips") + st.get("error_round_trips");
    let frames = st.get("frames_checked");
    let dispatched = st.get("hostile_frames_dispatched");
    let flips = st.get("bit_flips");
    let trunc = st.get("truncations");
    let short = st.get("crc_valid_short_frames");
    let rejected = st.get("frames_rejected");
    let accepted = st.get("frames_accepted");
    st.flush_into(&mut report);
    report.cover("evaluations", trips + frames + dispatched);
    report.cover("distinct_nontrivial", frames + trips);
    report.cover(
        "rule",
        "round trips: every value of the family (fixed/text/nested, payload sizes from the boundary grid) and every \
         ErrorCode x 4 message texts; frames: for every family frame within the size bound ALL single-bit flips, ALL \
         truncations, 12 extensions, plus every CRC-valid body shorter than the archived root (3 fillings per length); \
         the same hostile frames through dispatch_raw; all cases distinct by construction",
    );
    report.cover("exhaustive", true);
    report.guard_nonzero("guard_bit_flips", flips);
    report.guard_nonzero("guard_truncations", trunc);
    report.guard_nonzero("guard_crc_valid_short_frames", short);
    report.guard_nonzero("guard_frames_rejected", rejected);
    report.guard_nonzero("guard_frames_accepted", accepted);
    report.assume("in-process transport: hyper/h2 body chunking is bypassed here (single-chunk bodies); the multi-chunk path is covered by the turmoil run of C14's harness");
    report.assume("debug assertions are on in the harness build, so an out-of-bounds root position shows up as a panic rather than as undefined behaviour");
    report.finish()
}

pub fn replay(case: &J) -> i32 {
    let kind = case.get("kind").and_then(|v| v.as_str()).unwrap_or("fixed");
    let hexs = case.get("frame_hex").and_then(|v| v.as_str()).unwrap_or("");
    let frame: Vec<u8> = (0..hexs.len() / 2)
        .filter_map(|i| u8::from_str_radix(&hexs[2 * i..2 * i + 2], 16).ok())
        .collect();
    let mut st = Stats::default();
    match kind {
        "texty" => check_frame::<Texty>(kind, "replay", "replay", &frame, None, &mut st),
        "nested" => check_frame::<Nested>(kind, "replay", "replay", &frame, None, &mut st),
        "status" => check_frame::<Status>(kind, "replay", "replay", &frame, None, &mut st),
        "fail-with" => check_frame::<FailWith>(kind, "replay", "replay", &frame, None, &mut st),
        _ => check_frame::<Fixed>(kind, "replay", "replay", &frame, None, &mut st),
    }
    let hostile = vec![(
        match kind {
            "texty" => "texty",
            "nested" => "nested",
            "fail-with" => "fail-with",
            _ => "fixed",
        },
        "replay".to_string(),
        frame.clone(),
    )];
    block_on(hostile_dispatch(&hostile, &mut st));
    println!("frame ({} bytes): {}", frame.len(), hex(&frame));
    for f in &st.found {
        println!("{}: {}", f.key, f.what);
    }
    (!st.found.is_empty()) as i32
}
