//! C18 — a keyspace has one state, even when first used by many tasks at once.
//!
//! Engine E2 (Layer B, one node): k client tasks each make a *first use* of the fresh
//! keyspace name through one of five real entry paths — the group's
//! `get_or_create_keyspace` + a `Set`, the public `put`, an incoming `ConsistencyService`
//! RPC, an incoming `GetState` RPC (what a repairing peer does), the node's own repair cycle
//! against a peer that holds the keyspace — and every interleaving of
//! their await points is explored (k = 2 unbounded, k = 3 deviation-bounded). Afterwards
//! the mailbox a new lookup returns must serialise a set containing every acknowledged id.

use std::marker::PhantomData;
use std::sync::Arc;

use datacake_eventual_consistency::test_utils::MemStore;
use datacake_eventual_consistency::verif as ec;
use datacake_eventual_consistency::Document;
use datacake_node::{Clock, Consistency};
use datacake_rpc::Channel;
use vkit::e2::{self, Client, DriveCfg, ExploreCfg, Run};
use vkit::{fp128, Report, Stats, Tier, J};

use crate::stores::read_rows;
use crate::world::{node_addr, reset_seams, Node, Wall};

const FRESH: &str = "fresh";

#[derive(Clone, Copy, Debug, PartialEq, Eq, Hash)]
enum Entry {
    /// group.get_or_create_keyspace + Set message
    Direct,
    /// the public ReplicatedStoreHandle::put with Consistency::None
    Put,
    /// an incoming PutPayload through the real ConsistencyService
    Rpc,
    /// an incoming GetState through the real ReplicationService (no write)
    GetState,
    /// this node's own repair cycle against a peer that holds the keyspace with one document
    /// (id 50): the poller's path creates the keyspace, fetches the state and the document
    Repair,
    /// not a use of the keyspace: the moment the group's hourly tombstone sweep comes due
    /// (virtual time moves one hour), as a schedulable step
    SweepDue,
    /// the public `put`, abandoned by its caller after being polled this many times (a call
    /// wrapped in a timeout, an RPC handler whose client hung up); never acknowledged
    PutAbandoned(u8),
}

/// Polls `inner` at most `left` times, then gives up and drops it.
struct PollAtMost<F> {
    inner: Option<std::pin::Pin<Box<F>>>,
    left: u8,
}

impl<F: std::future::Future> std::future::Future for PollAtMost<F> {
    type Output = Option<F::Output>;
    fn poll(mut self: std::pin::Pin<&mut Self>, cx: &mut std::task::Context<'_>) -> std::task::Poll<Self::Output> {
        if self.left == 0 {
            self.inner = None;
            return std::task::Poll::Ready(None);
        }
        self.left -= 1;
        match self.inner.as_mut().expect("polled after completion").as_mut().poll(cx) {
            std::task::Poll::Ready(v) => std::task::Poll::Ready(Some(v)),
            std::task::Poll::Pending => {
                if self.left == 0 {
                    // the caller walks away now: the future is dropped where it is parked
                    self.inner = None;
                    std::task::Poll::Ready(None)
                } else {
                    std::task::Poll::Pending
                }
            },
        }
    }
}

const PEER_DOC: u64 = 50;
/// Written (and settled) before the tasks start in the sweep scenarios: the keyspace exists.
const PRE_DOC: u64 = 40;
const PRE_DEAD: u64 = 41;

#[derive(Clone, Debug, PartialEq, Eq, Hash, Default)]
struct Obs {
    /// ids whose write was acknowledged to its task
    acked: Vec<u64>,
    /// ids live in the set the final lookup returns
    in_final_set: Vec<u64>,
    /// ids live in storage
    in_storage: Vec<u64>,
    /// ids a fresh peer node holds after one real repair cycle against this node ("the set
    /// that peers later synchronise against": what the node advertises and serves)
    pulled_by_peer: Vec<u64>,
    errors: Vec<String>,
    /// sweep scenarios: the document written before the tasks started is no longer in the set
    earlier_content_lost: bool,
}

fn run_one(paths: &[Entry], prefix: &[usize], fine: bool) -> (Run, Obs) {
    run_one_at(paths, prefix, fine, false)
}

thread_local! {
    /// Scenario switch: task i makes its first use of its *own* fresh keyspace ("fresh" for
    /// even i, "fresh-b" for odd i) instead of all tasks sharing one name.
    static DISTINCT_NAMES: std::cell::Cell<bool> = const { std::cell::Cell::new(false) };
}

fn ks_of(task: usize) -> &'static str {
    if DISTINCT_NAMES.with(|d| d.get()) && task % 2 == 1 {
        "fresh-b"
    } else {
        FRESH
    }
}

fn run_one_distinct(paths: &[Entry], prefix: &[usize], fine: bool) -> (Run, Obs) {
    DISTINCT_NAMES.with(|d| d.set(true));
    let r = run_one_at(paths, prefix, fine, false);
    DISTINCT_NAMES.with(|d| d.set(false));
    r
}

/// `sweep`: the keyspace already exists (one document, one tombstone) and the group's
/// hourly tombstone sweep (`keyspace_purge_task`, the real background task) has just come
/// due when the tasks start, so its steps interleave with theirs.
fn run_one_at(paths: &[Entry], prefix: &[usize], fine: bool, sweep: bool) -> (Run, Obs) {
    run_one_mode(paths, prefix, fine, sweep as u8)
}

/// `mode` 0: fresh keyspace; 1: existing keyspace and the sweep due; 2: **fresh** keyspace and
/// the sweep due (it then meets a keyspace that is registered but still empty, because its
/// first user has the mailbox and has not sent its operation yet).
fn run_one_mode(paths: &[Entry], prefix: &[usize], fine: bool, mode: u8) -> (Run, Obs) {
    let sweep = mode == 1;
    let body = async {
        reset_seams();
        let _wall = Wall::start();
        let node = Node::start(1, "dc", Arc::new(MemStore::default())).await;
        node.set_membership(&[(1, "dc".into())]).await;
        // a real peer node for the repair path; it knows only itself, so nothing it writes is
        // pushed to the node under test
        let peer = if paths.contains(&Entry::Repair) {
            let peer = Node::start(2, "dc", Arc::new(MemStore::default())).await;
            peer.set_membership(&[(2, "dc".into())]).await;
            peer.store.put(FRESH, PEER_DOC, vec![PEER_DOC as u8], Consistency::None).await.expect("peer put");
            e2::settle().await;
            Some(peer)
        } else {
            None
        };
        if sweep {
            node.store.put(FRESH, PRE_DOC, vec![PRE_DOC as u8], Consistency::None).await.expect("pre put");
            node.store.put(FRESH, PRE_DEAD, vec![PRE_DEAD as u8], Consistency::None).await.expect("pre put");
            node.store.del(FRESH, PRE_DEAD, Consistency::None).await.expect("pre del");
            e2::settle().await;
            // one hour later: the sweep's interval fires; nothing is settled, its steps are
            // background work the explorer interleaves with the tasks
            tokio::time::advance(std::time::Duration::from_secs(3600)).await;
        }
        let acked = std::rc::Rc::new(std::cell::RefCell::new(Vec::<u64>::new()));
        let errors = std::rc::Rc::new(std::cell::RefCell::new(Vec::<String>::new()));
        // a remote peer's clock for the incoming RPCs
        let peer_clock = Clock::new(2);
        let clients: Vec<Option<Client>> = paths
            .iter()
            .enumerate()
            .map(|(i, path)| {
                let id = i as u64 + 1;
                let my_ks = ks_of(i);
                let acked = acked.clone();
                let errors = errors.clone();
                let group = node.group.clone();
                let store = node.store.clone();
                let clock = node.clock.clone();
                let peer_clock = peer_clock.clone();
                let network = node.network.clone();
                let path = *path;
                Some(Box::pin(async move {
                    if path == Entry::Repair {
                        let mut state = ec::RepairState::default();
                        let peers: std::collections::BTreeMap<datacake_node::NodeId, std::net::SocketAddr> = [(2, node_addr(2))].into_iter().collect();
                        ec::repair_cycle(group, network, &peers, &mut state).await;
                        // the cycle is over: the peer's document counts as accepted if it was applied
                        acked.borrow_mut().push(PEER_DOC);
                        return;
                    }
                    let res: Result<bool, String> = match path {
                        Entry::Direct => {
                            let ks = group.get_or_create_keyspace(my_ks).await;
                            let doc = Document::new(id, clock.get_time().await, vec![id as u8]);
                            ks.send(ec::Set { source: 0, doc, ctx: None, _marker: PhantomData::<MemStore> })
                                .await
                                .map(|_| true)
                                .map_err(|e| e.to_string())
                        },
                        Entry::Put => store
                            .put(my_ks, id, vec![id as u8], Consistency::None)
                            .await
                            .map(|_| true)
                            .map_err(|e| e.to_string()),
                        Entry::Rpc => {
                            let mut c = ec::ConsistencyClient::<MemStore>::new(peer_clock.clone(), Channel::connect(node_addr(1)));
                            let doc = Document::new(id, peer_clock.get_time().await, vec![id as u8]);
                            c.put(my_ks, doc, 2, node_addr(2)).await.map(|_| true).map_err(|e| e.to_string())
                        },
                        Entry::GetState => {
                            let mut c = ec::ReplicationClient::<MemStore>::new(peer_clock.clone(), Channel::connect(node_addr(1)));
                            c.get_state(my_ks).await.map(|_| false).map_err(|e| e.to_string())
                        },
                        Entry::Repair => unreachable!(),
                        Entry::SweepDue => {
                            tokio::time::advance(std::time::Duration::from_secs(3600)).await;
                            Ok(false)
                        },
                        Entry::PutAbandoned(k) => {
                            let call = store.put(my_ks, id, vec![id as u8], Consistency::None);
                            let _ = PollAtMost { inner: Some(Box::pin(call)), left: k }.await;
                            Ok(false)
                        },
                    };
                    match res {
                        Ok(true) => acked.borrow_mut().push(id),
                        Ok(false) => {},
                        Err(e) => errors.borrow_mut().push(e),
                    }
                }) as Client)
            })
            .collect();
        let run = e2::drive(clients, prefix, &DriveCfg { interleave_background: fine, ..DriveCfg::default() }).await;
        e2::settle().await;
        let mut obs = Obs::default();
        obs.acked = acked.borrow().clone();
        obs.acked.sort();
        obs.errors = errors.borrow().clone();
        let mut names: Vec<&'static str> = (0..paths.len()).map(ks_of).collect();
        names.sort();
        names.dedup();
        for name in names {
            let mine = |id: u64| id == PEER_DOC || id == PRE_DOC || (id >= 1 && id <= paths.len() as u64 && ks_of(id as usize - 1) == name);
            match node.set_of(name).await {
                Ok(set) => {
                    obs.in_final_set.extend((1..=paths.len() as u64).chain([PEER_DOC]).filter(|id| mine(*id) && set.get(id).is_some()));
                    if name == FRESH {
                        obs.earlier_content_lost = sweep && set.get(&PRE_DOC).is_none();
                    }
                },
                Err(e) => obs.errors.push(e),
            }
            match read_rows(node.storage.as_ref(), name).await {
                Ok(rows) => obs.in_storage.extend(rows.iter().filter(|(k, (_, d))| d.is_some() && **k != PRE_DOC).map(|(k, _)| *k)),
                Err(e) => obs.errors.push(e),
            }
        }
        obs.in_final_set.sort();
        obs.in_final_set.dedup();
        obs.in_storage.sort();
        // a fresh peer runs one real repair cycle against this node
        {
            let mut puller = Node::start(3, "dc", Arc::new(MemStore::default())).await;
            puller.set_membership(&[(3, "dc".into())]).await;
            puller.repair_from(&[1]).await;
            let mut names: Vec<&'static str> = (0..paths.len()).map(ks_of).collect();
            names.sort();
            names.dedup();
            for name in names {
                match read_rows(puller.storage.as_ref(), name).await {
                    Ok(rows) => obs.pulled_by_peer.extend(rows.iter().filter(|(k, (_, d))| d.is_some() && **k != PRE_DOC).map(|(k, _)| *k)),
                    Err(e) => obs.errors.push(e),
                }
            }
            obs.pulled_by_peer.sort();
            obs.pulled_by_peer.dedup();
            drop(puller);
        }
        drop(peer);
        (run, obs)
    };
    if fine {
        e2::block_on_fresh_fine(body)
    } else {
        e2::block_on_fresh(body)
    }
}

fn case_json(paths: &[Entry], run: &Run) -> J {
    J::obj()
        .set("entry_paths", paths.iter().map(|p| format!("{p:?}")).collect::<Vec<_>>())
        .set("schedule", run.choices.clone())
        .set("ran", run.ran.clone())
}

fn judge_fine(paths: &[Entry], run: &Run, obs: &Obs, st: &mut Stats) {
    let before = st.found.len();
    judge(paths, run, obs, st);
    for f in st.found.iter_mut().skip(before) {
        f.replay.put("fine_grained", true);
    }
}

fn judge_distinct(paths: &[Entry], fine: bool, run: &Run, obs: &Obs, st: &mut Stats) {
    let before = st.found.len();
    judge(paths, run, obs, st);
    st.inc("distinct_name_executions");
    for f in st.found.iter_mut().skip(before) {
        f.key = format!("{}/two-fresh-keyspaces", f.key);
        f.replay.put("fine_grained", fine);
        f.replay.put("distinct_names", true);
    }
}

fn judge_sweep(paths: &[Entry], run: &Run, obs: &Obs, st: &mut Stats) {
    let before = st.found.len();
    judge(paths, run, obs, st);
    st.inc("sweep_executions");
    for f in st.found.iter_mut().skip(before) {
        f.key = format!("{}/during-the-tombstone-sweep", f.key);
        f.replay.put("fine_grained", true);
        f.replay.put("sweep", true);
    }
}

fn judge_fresh_sweep(paths: &[Entry], run: &Run, obs: &Obs, st: &mut Stats) {
    let before = st.found.len();
    judge(paths, run, obs, st);
    st.inc("fresh_sweep_executions");
    for f in st.found.iter_mut().skip(before) {
        f.key = format!("{}/first-use-during-the-tombstone-sweep", f.key);
        f.replay.put("fine_grained", true);
        f.replay.put("sweep_mode", 2u64);
    }
}

fn judge(paths: &[Entry], run: &Run, obs: &Obs, st: &mut Stats) {
    st.inc("executions");
    let rank = (run.deviations() as u64) << 32 | run.choices.len() as u64;
    let case = || case_json(paths, run);
    if run.deadlocked {
        st.violation_ranked("deadlock", rank, || "client tasks never finished".to_string(), case);
        return;
    }
    if !obs.errors.is_empty() {
        st.violation_ranked("request-failed", rank, || format!("{:?}", obs.errors), case);
    }
    let missing: Vec<u64> = obs.acked.iter().copied().filter(|id| !obs.in_final_set.contains(id)).collect();
    if !missing.is_empty() {
        st.violation_ranked(
            "acknowledged-write-missing-from-the-keyspace-set",
            rank,
            || {
                format!(
                    "writes {:?} were acknowledged, but the set a new lookup of {FRESH:?} returns holds {:?} (storage holds {:?})",
                    obs.acked, obs.in_final_set, obs.in_storage
                )
            },
            case,
        );
    }
    let not_pulled: Vec<u64> = obs.acked.iter().copied().filter(|id| !obs.pulled_by_peer.contains(id)).collect();
    if !not_pulled.is_empty() && missing.is_empty() {
        st.violation_ranked(
            "acknowledged-write-not-offered-to-a-repairing-peer",
            rank,
            || {
                format!(
                    "writes {:?} were acknowledged and are in the node's set {:?}, but a fresh peer that ran a repair cycle against the node holds only {:?}",
                    obs.acked, obs.in_final_set, obs.pulled_by_peer
                )
            },
            case,
        );
    }
    if obs.earlier_content_lost {
        st.violation_ranked(
            "earlier-content-missing-from-the-keyspace-set",
            rank,
            || format!("document {PRE_DOC}, written before the tasks started, is not in the set a new lookup of {FRESH:?} returns"),
            case,
        );
    }
    // an abandoned call was never acknowledged but may have taken effect all the same
    let optional: Vec<u64> = paths.iter().enumerate().filter(|(_, p)| matches!(p, Entry::PutAbandoned(_))).map(|(i, _)| i as u64 + 1).collect();
    let in_storage: Vec<u64> = obs.in_storage.iter().copied().filter(|id| !optional.contains(id)).collect();
    if let Some(id) = obs.in_storage.iter().find(|id| optional.contains(id) && !obs.in_final_set.contains(id)) {
        st.violation_ranked(
            "abandoned-write-in-storage-but-not-in-the-keyspace-set",
            rank,
            || format!("the abandoned put of id {id} reached storage, but the set a new lookup returns holds {:?}", obs.in_final_set),
            case,
        );
    }
    if in_storage != obs.acked {
        st.violation_ranked(
            "storage-and-acknowledgements-differ",
            rank,
            || format!("acknowledged {:?}, storage holds {:?}", obs.acked, in_storage),
            case,
        );
    }
    st.seen("outcomes", fp128(&(paths, &obs.in_final_set, &obs.acked)));
    st.seen("schedules", fp128(&(paths, &run.choices)));
}

pub fn run(tier: Tier) -> i32 {
    let mut report = Report::new("C18", tier, "model_checking");
    let mut total = Stats::default();
    let mut summary = vkit::e2::Summary::default();
    let all = [Entry::Direct, Entry::Put, Entry::Rpc, Entry::GetState, Entry::Repair];
    let mut scenarios: Vec<(Vec<Entry>, Option<usize>)> = Vec::new();
    for a in 0..all.len() {
        for b in a..all.len() {
            if matches!(all[a], Entry::GetState | Entry::Repair) && all[a] == all[b] {
                continue;
            }
            scenarios.push((vec![all[a], all[b]], None));
        }
    }
    let k3 = tier.pick(2, 6);
    for t in [[Entry::Direct, Entry::Put, Entry::Rpc], [Entry::Put, Entry::Put, Entry::GetState], [Entry::Rpc, Entry::Rpc, Entry::Direct], [Entry::Repair, Entry::Put, Entry::Rpc]] {
        scenarios.push((t.to_vec(), Some(k3)));
    }
    // the same pairs once more at single-task-poll granularity (background tasks stepped one
    // poll at a time), deviation-bounded
    let fine_bound = tier.pick(3, 5);
    let fine_scenarios: Vec<(Vec<Entry>, Option<usize>)> = scenarios.iter().filter(|(p, _)| p.len() == 2).map(|(p, _)| (p.clone(), Some(fine_bound))).collect();
    for (paths, bound) in &fine_scenarios {
        let cfg = ExploreCfg { max_deviations: *bound, max_executions: 2_000_000, determinism_check_every: 53 };
        let (st, sum) = e2::explore(&cfg, |p| run_one(paths, p, true), |st, run, obs| judge_fine(paths, run, obs, st));
        total.merge(st);
        summary.executions += sum.executions;
        summary.max_steps = summary.max_steps.max(sum.max_steps);
        summary.deadlocks += sum.deadlocks;
        summary.nondeterministic += sum.nondeterministic;
        summary.prefix_misfits += sum.prefix_misfits;
        summary.capped |= sum.capped;
    }
    // an existing keyspace while the group's hourly tombstone sweep runs: "one and the same
    // set for the life of the node" (added after the seeded change C18-e)
    let sweep_scenarios: Vec<Vec<Entry>> = vec![
        vec![Entry::Direct],
        vec![Entry::Put],
        vec![Entry::Rpc],
        vec![Entry::GetState],
        vec![Entry::Put, Entry::Rpc],
        vec![Entry::Direct, Entry::GetState],
    ];
    for paths in &sweep_scenarios {
        let cfg = ExploreCfg { max_deviations: Some(fine_bound), max_executions: 2_000_000, determinism_check_every: 53 };
        let (st, sum) = e2::explore(&cfg, |p| run_one_at(paths, p, true, true), |st, run, obs| judge_sweep(paths, run, obs, st));
        total.merge(st);
        summary.executions += sum.executions;
        summary.max_steps = summary.max_steps.max(sum.max_steps);
        summary.deadlocks += sum.deadlocks;
        summary.nondeterministic += sum.nondeterministic;
        summary.prefix_misfits += sum.prefix_misfits;
        summary.capped |= sum.capped;
    }
    // a *fresh* keyspace whose first users start while the sweep is due: the sweep can meet a
    // keyspace that is registered but still empty (added after the seeded change C18-g)
    let fresh_sweep_scenarios: Vec<Vec<Entry>> = vec![
        vec![Entry::Direct],
        vec![Entry::Put],
        vec![Entry::Rpc],
        vec![Entry::Direct, Entry::GetState],
        vec![Entry::Put, Entry::Rpc],
        vec![Entry::Direct, Entry::Direct],
        vec![Entry::Repair],
        vec![Entry::Repair, Entry::GetState],
    ];
    let fresh_sweep_scenarios: Vec<Vec<Entry>> = fresh_sweep_scenarios
        .into_iter()
        .map(|mut p| {
            p.push(Entry::SweepDue);
            p
        })
        .collect();
    for paths in &fresh_sweep_scenarios {
        let cfg = ExploreCfg { max_deviations: Some(tier.pick(3, 4)), max_executions: 4_000_000, determinism_check_every: 53 };
        let (st, sum) = e2::explore(&cfg, |p| run_one_mode(paths, p, true, 2), |st, run, obs| judge_fresh_sweep(paths, run, obs, st));
        total.merge(st);
        summary.executions += sum.executions;
        summary.max_steps = summary.max_steps.max(sum.max_steps);
        summary.deadlocks += sum.deadlocks;
        summary.nondeterministic += sum.nondeterministic;
        summary.prefix_misfits += sum.prefix_misfits;
        summary.capped |= sum.capped;
    }
    // a first user that is abandoned by its caller part-way (polled k times, then dropped)
    // next to first users that complete (added after the seeded change C18-h)
    let mut abandoned_execs = 0u64;
    for k in 1..=tier.pick(6u8, 9) {
        for partner in [Entry::Put, Entry::Rpc, Entry::Direct, Entry::GetState] {
            let paths = vec![Entry::PutAbandoned(k), partner, Entry::Put];
            let cfg = ExploreCfg { max_deviations: Some(tier.pick(2, 3)), max_executions: 2_000_000, determinism_check_every: 53 };
            let (st, sum) = e2::explore(&cfg, |p| run_one(&paths, p, false), |st, run, obs| judge(&paths, run, obs, st));
            abandoned_execs += sum.executions as u64;
            total.merge(st);
            summary.executions += sum.executions;
            summary.max_steps = summary.max_steps.max(sum.max_steps);
            summary.deadlocks += sum.deadlocks;
            summary.nondeterministic += sum.nondeterministic;
            summary.prefix_misfits += sum.prefix_misfits;
            summary.capped |= sum.capped;
        }
    }
    // concurrent first uses of two *different* fresh keyspaces (registering one must not lose
    // the other; added after the seeded change C18-f): pairs over all schedules, and
    // fine-grained with the deviation bound
    let writers = [Entry::Direct, Entry::Put, Entry::Rpc];
    for a in writers {
        for b in [Entry::Direct, Entry::Put, Entry::Rpc, Entry::GetState] {
            let paths = vec![a, b];
            for fine in [false, true] {
                let cfg = ExploreCfg { max_deviations: if fine { Some(fine_bound) } else { None }, max_executions: 2_000_000, determinism_check_every: 53 };
                let (st, sum) = e2::explore(&cfg, |p| run_one_distinct(&paths, p, fine), |st, run, obs| judge_distinct(&paths, fine, run, obs, st));
                total.merge(st);
                summary.executions += sum.executions;
                summary.max_steps = summary.max_steps.max(sum.max_steps);
                summary.deadlocks += sum.deadlocks;
                summary.nondeterministic += sum.nondeterministic;
                summary.prefix_misfits += sum.prefix_misfits;
                summary.capped |= sum.capped;
            }
        }
    }
    for (paths, bound) in &scenarios {
        let cfg = ExploreCfg { max_deviations: *bound, max_executions: 2_000_000, determinism_check_every: 53 };
        let (st, sum) = e2::explore(&cfg, |p| run_one(paths, p, false), |st, run, obs| judge(paths, run, obs, st));
        if total.samples.len() < 3 {
            let (run, _) = run_one(paths, &[0, 1], false);
            total.sample(|| case_json(paths, &run));
        }
        total.merge(st);
        summary.executions += sum.executions;
        summary.max_steps = summary.max_steps.max(sum.max_steps);
        summary.deadlocks += sum.deadlocks;
        summary.nondeterministic += sum.nondeterministic;
        summary.prefix_misfits += sum.prefix_misfits;
        summary.capped |= sum.capped;
    }
    let schedules = total.distinct_count("schedules");
    let outcomes = total.distinct_count("outcomes");
    let sweep_execs = total.get("sweep_executions");
    let fresh_sweep_execs = total.get("fresh_sweep_executions");
    let distinct_execs = total.get("distinct_name_executions");
    total.flush_into(&mut report);
    report.cover("states", schedules);
    report.cover("transitions", summary.executions * summary.max_steps.max(1) as u64);
    report.cover("traces_validated_against_impl", summary.executions);
    report.cover("evaluations", summary.executions);
    report.cover("distinct_nontrivial", outcomes);
    report.cover(
        "rule",
        "per scenario (entry path per task) every schedule of await-point interleavings within the deviation bound on a \
         real node (KeyspaceGroup, store handle, in-process RPC services); states = distinct complete schedules; \
         distinct_nontrivial = distinct (acknowledged, final set) outcomes",
    );
    report.cover("scenarios", scenarios.len());
    report.cover("executions", summary.executions);
    report.cover("max_steps_per_execution", summary.max_steps);
    report.cover("k3_deviation_bound", k3);
    report.cover("fine_grained_k2_deviation_bound", fine_bound);
    report.cover("two_fresh_keyspaces_executions", distinct_execs);
    report.guard(distinct_execs > 100, "the two-fresh-keyspaces scenarios did not run");
    report.cover("sweep_scenarios", sweep_scenarios.len());
    report.cover("sweep_executions", sweep_execs);
    report.cover("abandoned_first_user_executions", abandoned_execs);
    report.cover("fresh_keyspace_sweep_scenarios", fresh_sweep_scenarios.len());
    report.cover("fresh_keyspace_sweep_executions", fresh_sweep_execs);
    report.guard(fresh_sweep_execs > fresh_sweep_scenarios.len() as u64 * 3, "the tombstone sweep does not interleave with first uses");
    report.guard(sweep_execs > sweep_scenarios.len() as u64 * 3, "the tombstone sweep does not interleave with the tasks");
    report.cover("exhaustive", !summary.capped);
    report.guard(summary.nondeterministic == 0, "an execution did not reproduce when run twice with the same schedule");
    report.guard(summary.prefix_misfits == 0, "a schedule prefix did not fit its re-execution");
    report.guard(schedules > scenarios.len() as u64 * 3, "too few schedules per scenario: the tasks do not interleave");
    report.assume("await-point granularity on a current-thread runtime; the window of the property lies across awaits (read-locked lookup, actor spawn, write-locked insert), not inside a lock-protected section");
    report.finish()
}

pub fn replay(case: &J) -> i32 {
    let paths: Vec<Entry> = case
        .get("entry_paths")
        .and_then(|v| v.as_arr())
        .unwrap_or(&[])
        .iter()
        .filter_map(|p| match p.as_str()? {
            "Direct" => Some(Entry::Direct),
            "Put" => Some(Entry::Put),
            "Rpc" => Some(Entry::Rpc),
            "GetState" => Some(Entry::GetState),
            "Repair" => Some(Entry::Repair),
            "SweepDue" => Some(Entry::SweepDue),
            p if p.starts_with("PutAbandoned(") => p["PutAbandoned(".len()..p.len() - 1].parse().ok().map(Entry::PutAbandoned),
            _ => None,
        })
        .collect();
    let schedule: Vec<usize> = case
        .get("schedule")
        .and_then(|v| v.as_arr())
        .unwrap_or(&[])
        .iter()
        .filter_map(|v| v.as_u64().map(|x| x as usize))
        .collect();
    let fine = case.get("fine_grained").and_then(|v| v.as_bool()).unwrap_or(false);
    let sweep = case.get("sweep").and_then(|v| v.as_bool()).unwrap_or(false);
    DISTINCT_NAMES.with(|d| d.set(case.get("distinct_names").and_then(|v| v.as_bool()).unwrap_or(false)));
    let mode = case.get("sweep_mode").and_then(|v| v.as_u64()).unwrap_or(sweep as u64) as u8;
    let (run, obs) = run_one_mode(&paths, &schedule, fine, mode);
    let (run2, obs2) = run_one_mode(&paths, &schedule, fine, mode);
    if run != run2 || obs != obs2 {
        eprintln!("replay is not deterministic");
        return 2;
    }
    println!("ran: {:?}\n{obs:#?}", run.ran);
    let mut st = Stats::default();
    judge(&paths, &run, &obs, &mut st);
    for f in &st.found {
        println!("{}: {}", f.key, f.what);
    }
    (!st.found.is_empty()) as i32
}
