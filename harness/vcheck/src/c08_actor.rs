//! C08, third block — purges on a real keyspace actor, with a storage that may refuse them.
//!
//! The local and the cluster clauses drive `OrSWotSet` directly; the node's purge, however,
//! is `KeyspaceActor::on_purge_tombstones`: it asks the set for the purgeable tombstones,
//! asks the *storage* to forget them, and has to put things right when the storage refuses
//! (wholly or in part). This block runs a sharp driver on the real actor behind the
//! fault-injecting store: a fixed prefix makes one tombstone purgeable (delete, then the
//! deleting node moves on by more than an hour on both sources), after which **every
//! sequence** of purges (storage ok / refusing / refusing one document), re-writes and
//! re-deletes of the purged id, a stale operation of the deleting node, and unrelated writes
//! is executed.
//!
//! Oracle, after every step: (a) a purge — successful or failed — leaves the live documents
//! of set *and storage* exactly as they were ("removes only tombstones", "no live document is
//! lost"); (b) the stale operation never becomes visible ("deletes stay deleted"); (c) at the
//! end, reads equal those of a twin actor that received the same requests without any purge
//! ("purging is invisible"); (d) C02's set/storage agreement as a side condition.

use std::collections::BTreeMap;
use std::sync::Arc;

use datacake_crdt::{HLCTimestamp, Key};
use datacake_eventual_consistency::verif as ec;
use datacake_node::Clock;
use vkit::{fp128, par, Report, Stats, Tier, J};

use crate::c02::{observe, send_request, Req, KS};
use crate::crdt::*;
use crate::stores::{read_rows, Fault, FaultStore, MapStore};
use crate::world::Wall;

fn pool() -> Vec<Op> {
    vec![
        Op::ins(1, ts_min(0, 0, 1)),  // 0
        Op::del(1, ts_min(5, 0, 1)),  // 1  the delete that becomes purgeable
        Op::ins(2, ts_min(70, 0, 1)), // 2  node 1 moves on (source 0)
        Op::ins(2, ts_min(75, 0, 1)), // 3  node 1 moves on (source 1)
        Op::ins(1, ts_min(80, 0, 1)), // 4  the id is legitimately written again
        Op::del(1, ts_min(85, 0, 1)), // 5  and deleted again
        Op::ins(3, ts_min(90, 0, 1)), // 6  unrelated write
        Op::ins(1, ts_min(3, 0, 1)),  // 7  stale: older than the purged delete, same node
        Op::ins(1, ts_min(82, 0, 2)), // 8  another node writes the id
        Op::ins(4, ts_min(1, 0, 1)),  // 9  a second early document ...
        Op::del(4, ts_min(6, 0, 1)),  // 10 ... deleted early as well (second purgeable tombstone)
    ]
}

/// (pool index, source, is a delete, the storage refuses this request)
type PrefixStep = (usize, usize, bool, bool);

/// Prefix 0: both early documents deleted. Prefix 1: the delete of the second document is
/// refused by the storage (a failed request must leave no trace that a later purge acts on;
/// added after C08-l). Prefix 2: refused, then delivered again and accepted.
fn prefixes() -> Vec<Vec<PrefixStep>> {
    vec![
        vec![(0, 0, false, false), (9, 0, false, false), (1, 0, true, false), (10, 0, true, false), (2, 0, false, false), (3, 1, false, false)],
        vec![(0, 0, false, false), (9, 0, false, false), (1, 0, true, false), (10, 0, true, true), (2, 0, false, false), (3, 1, false, false)],
        vec![(0, 0, false, false), (9, 0, false, false), (1, 0, true, false), (10, 0, true, true), (10, 0, true, false), (2, 0, false, false), (3, 1, false, false)],
    ]
}

#[derive(Clone, Copy, Debug, PartialEq, Eq, Hash)]
enum Ev {
    Purge(Fault),
    Set(usize, usize),
    Del(usize, usize),
}

fn alphabet(thorough: bool) -> Vec<Ev> {
    let mut v = vec![Ev::Purge(Fault::None), Ev::Purge(Fault::FailBefore), Ev::Purge(Fault::FailOnly(0)), Ev::Purge(Fault::FailAfter(1))];
    for src in [0usize, 1] {
        v.push(Ev::Set(4, src));
        v.push(Ev::Del(5, src));
        v.push(Ev::Set(7, src));
        if thorough || src == 0 {
            v.push(Ev::Set(6, src));
            v.push(Ev::Set(8, src));
        }
    }
    v
}

fn ev_json(pool: &[Op], e: &Ev) -> J {
    match e {
        Ev::Purge(f) => J::obj().set("purge", format!("{f:?}")),
        Ev::Set(i, s) => J::obj().set("set", pool[*i].to_json()).set("op", *i as u64).set("src", *s as u64),
        Ev::Del(i, s) => J::obj().set("del", pool[*i].to_json()).set("op", *i as u64).set("src", *s as u64),
    }
}

fn case_json(pool: &[Op], prefix: usize, seq: &[Ev]) -> J {
    J::obj().set("block", "actor").set("prefix", prefix as u64).set("events", J::Arr(seq.iter().map(|e| ev_json(pool, e)).collect()))
}

type Live = BTreeMap<Key, HLCTimestamp>;

struct Actor {
    store: Arc<FaultStore<MapStore>>,
    ks: crate::world::Mailbox<FaultStore<MapStore>>,
    _group: ec::KeyspaceGroup<FaultStore<MapStore>>,
}

async fn start(pool: &[Op], prefix: usize) -> Actor {
    let clock = Clock::new(9);
    let store = Arc::new(FaultStore::new(Arc::new(MapStore::default())));
    let group = ec::KeyspaceGroup::new(store.clone(), clock).await;
    let ks = group.get_or_create_keyspace(KS).await;
    for (op, src, del, fail) in prefixes()[prefix].clone() {
        let req = if del { Req::Del { op, src } } else { Req::Set { op, src } };
        if fail {
            store.plan([Fault::FailBefore]);
        }
        let res = send_request(&ks, pool, &req).await;
        store.plan([]);
        assert_eq!(res.is_err(), fail, "prefix request {op}: {res:?}");
    }
    Actor { store, ks, _group: group }
}

async fn storage_live(a: &Actor) -> Result<Live, String> {
    Ok(read_rows(a.store.as_ref(), KS).await?.into_iter().filter(|(_, (_, d))| d.is_some()).map(|(k, (t, _))| (k, t)).collect())
}

async fn execute(pool: &[Op], prefix: usize, seq: &[Ev], st: &mut Stats) {
    let _wall = Wall::start();
    let a = start(pool, prefix).await;
    let twin = start(pool, prefix).await;
    let case = || case_json(pool, prefix, seq);
    let rank = seq.len() as u64;
    let fmt = |l: &Live| l.iter().map(|(k, t)| format!("{k}@{t}")).collect::<Vec<_>>().join(" ");
    let stale = pool[7];
    let mut purged_something = false;
    for (i, ev) in seq.iter().enumerate() {
        let before_store = match storage_live(&a).await {
            Ok(l) => l,
            Err(e) => {
                st.violation_ranked("actor/observation-failed", rank, || e.clone(), case);
                return;
            },
        };
        let before = observe(&a.ks, a.store.as_ref(), pool).await;
        match ev {
            Ev::Purge(f) => {
                a.store.plan([*f]);
                let _ = send_request(&a.ks, pool, &Req::Purge).await;
                a.store.plan([]);
            },
            Ev::Set(op, src) => {
                let _ = send_request(&a.ks, pool, &Req::Set { op: *op, src: *src }).await;
                let _ = send_request(&twin.ks, pool, &Req::Set { op: *op, src: *src }).await;
            },
            Ev::Del(op, src) => {
                let _ = send_request(&a.ks, pool, &Req::Del { op: *op, src: *src }).await;
                let _ = send_request(&twin.ks, pool, &Req::Del { op: *op, src: *src }).await;
            },
        }
        st.inc("actor_transitions");
        let (Ok(before), Ok(after)) = (before, observe(&a.ks, a.store.as_ref(), pool).await) else {
            st.violation_ranked("actor/observation-failed", rank, || "Serialize or storage read failed".to_string(), case);
            return;
        };
        let after_store = storage_live(&a).await.unwrap_or_default();
        let what = match ev {
            Ev::Purge(Fault::None) => "purge",
            Ev::Purge(_) => "failed-purge",
            _ => "request",
        };
        if let Ev::Purge(_) = ev {
            st.inc("actor_purges");
            if after.dead.len() < before.dead.len() || after.rows_dead.len() < before.rows_dead.len() {
                st.inc("actor_purges_that_removed_something");
                purged_something = true;
            }
            if after_store != before_store {
                st.violation_ranked(
                    &format!("actor/purge-changed-the-live-documents-in-storage/{what}"),
                    rank,
                    || format!("step {i}: storage held live [{}] before the purge and [{}] after it", fmt(&before_store), fmt(&after_store)),
                    case,
                );
            }
            if after.live != before.live {
                st.violation_ranked(
                    &format!("actor/purge-changed-the-live-entries-of-the-set/{what}"),
                    rank,
                    || format!("step {i}: set live {:?} before the purge, {:?} after it", before.live, after.live),
                    case,
                );
            }
            if after.dead.iter().any(|d| !before.dead.contains(d)) {
                st.violation_ranked(
                    &format!("actor/purge-created-a-tombstone/{what}"),
                    rank,
                    || format!("step {i}: tombstones {:?} before the purge, {:?} after it", before.dead, after.dead),
                    case,
                );
            }
        }
        if after_store.get(&stale.key) == Some(&stale.ts) || after.live.contains(&(stale.key, stale.ts)) {
            st.violation_ranked(
                "actor/stale-operation-of-the-deleting-node-accepted",
                rank,
                || format!("step {i}: the insert of key {} at {} (older than the delete at {}) is visible", stale.key, stale.ts, pool[1].ts),
                case,
            );
        }
        if after.live != after.rows_live || after.dead != after.rows_dead {
            st.violation_ranked(
                &format!("actor/set-and-storage-disagree/after-{what}"),
                rank,
                || format!("step {i}: set live {:?} dead {:?}; storage live {:?} dead {:?}", after.live, after.dead, after.rows_live, after.rows_dead),
                case,
            );
        }
    }
    // twin: the same requests without any purge
    let mine = storage_live(&a).await.unwrap_or_default();
    let theirs = storage_live(&twin).await.unwrap_or_default();
    st.inc("actor_sequences");
    if purged_something {
        st.inc("actor_sequences_where_a_purge_removed_something");
    }
    if mine != theirs {
        st.violation_ranked(
            "actor/history-with-purges-differs-from-history-without",
            rank,
            || format!("live documents with purges [{}], without [{}]", fmt(&mine), fmt(&theirs)),
            case,
        );
    }
    st.seen("actor_outcomes", fp128(&format!("{mine:?}")));
}

fn sequences(al: &[Ev], max_len: usize) -> Vec<Vec<Ev>> {
    let mut all: Vec<Vec<Ev>> = Vec::new();
    let mut cur: Vec<Vec<Ev>> = vec![vec![]];
    for _ in 0..max_len {
        cur = cur
            .into_iter()
            .flat_map(|s| {
                al.iter().map(move |e| {
                    let mut t = s.clone();
                    t.push(*e);
                    t
                })
            })
            .collect();
        all.extend(cur.iter().cloned());
    }
    // every sequence is executed step by step with the oracle after each step, so only the
    // maximal ones (and those that cannot be extended) need to run; keep all lengths for
    // short witnesses first
    all
}

pub fn run(tier: Tier, report: &mut Report) {
    let pool = pool();
    let al = alphabet(tier.is_thorough());
    let max_len = tier.pick(4, 5);
    // prefixes are covered by their extensions (the oracle runs after every step), so only
    // the sequences of maximal length are executed; counterexamples are ranked by length
    let all = sequences(&al, max_len);
    let mut seqs: Vec<(usize, Vec<Ev>)> = Vec::new();
    for prefix in 0..prefixes().len() {
        // the prefixes with a refused delete run one step shorter
        let len = if prefix == 0 { max_len } else { max_len - 1 };
        seqs.extend(all.iter().filter(|s| s.len() == len).map(|s| (prefix, s.clone())));
    }
    let parts = par::par_map(&seqs, |_, (prefix, seq)| {
        let mut st = Stats::default();
        vkit::e2::block_on_fresh(execute(&pool, *prefix, seq, &mut st));
        st
    });
    let mut total = Stats::default();
    for p in parts {
        total.merge(p);
    }
    total.sample(|| case_json(&pool, seqs[seqs.len() / 2].0, &seqs[seqs.len() / 2].1));
    let n = total.get("actor_sequences");
    let tr = total.get("actor_transitions");
    let purges = total.get("actor_purges");
    let removed = total.get("actor_purges_that_removed_something");
    let outcomes = total.distinct_count("actor_outcomes");
    total.flush_into(report);
    report.cover_add("transitions", tr);
    report.cover_add("traces_validated_against_impl", n);
    report.cover_add("evaluations", n);
    report.cover("actor_block_sequences", n);
    report.cover("actor_block_sequence_length", max_len as u64);
    report.cover("actor_block_alphabet", al.len() as u64);
    report.cover("actor_block_purges", purges);
    report.cover("actor_block_distinct_outcomes", outcomes);
    report.cover(
        "actor_block_rule",
        "three prefixes (two documents written and deleted, the deleting node moves on by more than an hour on both sources; the second delete accepted / refused by the storage / refused and delivered again) followed by every sequence of the given length over \
         {purge with the storage ok / refusing / refusing one document / failing after one, re-write, re-delete, stale insert of the deleting node, another node's write, unrelated write} x source, \
         on the real keyspace actor behind the fault-injecting store, with a never-purging twin actor",
    );
    report.guard_nonzero("guard_actor_block_purges_that_removed_something", removed);
    report.guard(outcomes > 3, "actor block: more than three distinct end results");
}

pub fn replay(case: &J) -> i32 {
    let pool = pool();
    let mut seq = Vec::new();
    for e in case.get("events").and_then(|v| v.as_arr()).unwrap_or(&[]) {
        if let Some(f) = e.get("purge").and_then(|v| v.as_str()) {
            let fault = match f {
                "None" => Fault::None,
                "FailBefore" => Fault::FailBefore,
                "FailOnly(0)" => Fault::FailOnly(0),
                "FailAfter(1)" => Fault::FailAfter(1),
                _ => return 2,
            };
            seq.push(Ev::Purge(fault));
        } else {
            let op = e.get("op").and_then(|v| v.as_u64()).unwrap_or(0) as usize;
            let src = e.get("src").and_then(|v| v.as_u64()).unwrap_or(0) as usize;
            if e.get("set").is_some() {
                seq.push(Ev::Set(op, src));
            } else {
                seq.push(Ev::Del(op, src));
            }
        }
    }
    let mut st = Stats::default();
    let prefix = case.get("prefix").and_then(|v| v.as_u64()).unwrap_or(0) as usize;
    vkit::e2::block_on_fresh(execute(&pool, prefix, &seq, &mut st));
    for f in &st.found {
        println!("{}: {}", f.key, f.what);
    }
    (!st.found.is_empty()) as i32
}
