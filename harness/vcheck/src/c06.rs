//! C06 — a successful write has reached the replicas its consistency level promises.
//!
//! Engine E1 over configurations x faults (Layer B cluster): every layout up to the bound,
//! every issuing node, all eight levels, the four operation kinds, fresh and pre-advanced
//! selector cursors, and EVERY assignment of {acknowledge, lose the request, lose the reply,
//! storage failure, (bulk operations) storage failure after the first document} to the other nodes. The public `put / put_many / del / del_many` of
//! the real `ReplicatedStoreHandle` is called and the oracle inspects every node's storage
//! at the moment the call returns.

use std::collections::BTreeMap;
use std::sync::Arc;

use datacake_crdt::HLCTimestamp;
use datacake_eventual_consistency::test_utils::MemStore;
use datacake_eventual_consistency::{Storage, StoreError};
use datacake_node::{Consistency, ConsistencyError, NodeId};
use datacake_rpc::verif::NetVerdict;
use vkit::{fp128, par, Report, Stats, Tier, J};

use crate::stores::{read_rows, Fault, FaultStore};
use crate::world::{node_addr, reset_seams, Cluster, Wall};

const KS: &str = "ks";
type S = FaultStore<MemStore>;

const LEVELS: [Consistency; 8] = [
    Consistency::None,
    Consistency::One,
    Consistency::Two,
    Consistency::Three,
    Consistency::Quorum,
    Consistency::LocalQuorum,
    Consistency::All,
    Consistency::EachQuorum,
];

#[derive(Clone, Copy, Debug, PartialEq, Eq, Hash)]
enum Kind {
    Put,
    PutMany,
    Del,
    DelMany,
}

#[derive(Clone, Copy, Debug, PartialEq, Eq, Hash)]
enum Peer {
    Ack,
    DropRequest,
    DropReply,
    StorageFails,
    /// bulk operations only: the replica's storage writes the first document of the batch and
    /// then fails, reporting that one id as written
    StoragePartial,
    /// the node is a live member but does not (yet) run the store's consistency service:
    /// its RPC server answers with the error status ServiceUnavailable
    NoService,
    /// the replica neither fails nor answers: its storage call never returns (a stalled
    /// disk, a black-holed connection). The call may stay pending — the property promises no
    /// deadline — but if it returns, the answer must be true (added after C06-l)
    Stuck,
}

#[derive(Clone, Debug)]
struct Scenario {
    layout: Vec<(NodeId, String)>,
    issuer: NodeId,
    level: Consistency,
    kind: Kind,
    pre_advance: Option<Consistency>,
    peers: BTreeMap<NodeId, Peer>,
    /// The cluster had only this many members (the issuer and the first others of the
    /// layout) when the issuer made a selection at the same level; it has just grown to the
    /// full layout when the write is issued.
    grew_from: Option<usize>,
}

fn scenario_json(s: &Scenario) -> J {
    J::obj()
        .set("layout", s.layout.iter().map(|(n, d)| format!("{n}@{d}")).collect::<Vec<_>>())
        .set("issuer", s.issuer)
        .set("consistency", format!("{:?}", s.level))
        .set("operation", format!("{:?}", s.kind))
        .set("selection_made_before", s.pre_advance.map(|c| format!("{c:?}")))
        .set("cluster_grew_from", s.grew_from.map(|k| k as u64))
        .set(
            "peers",
            J::Arr(s.peers.iter().map(|(n, p)| J::from(format!("{n}:{p:?}"))).collect()),
        )
}

/// Other nodes the level requires (a majority counts the issuer), plus per-DC minima.
fn required(level: Consistency, layout: &[(NodeId, String)], issuer: NodeId) -> (usize, BTreeMap<String, usize>) {
    let total = layout.len();
    let issuer_dc = layout.iter().find(|(n, _)| *n == issuer).map(|(_, d)| d.clone()).unwrap();
    let mut per_dc_count: BTreeMap<String, usize> = BTreeMap::new();
    for (_, d) in layout {
        *per_dc_count.entry(d.clone()).or_insert(0) += 1;
    }
    let n_local = per_dc_count[&issuer_dc];
    let mut per_dc = BTreeMap::new();
    let n = match level {
        Consistency::None => 0,
        Consistency::One => 1,
        Consistency::Two => 2,
        Consistency::Three => 3,
        Consistency::Quorum => total / 2,
        Consistency::LocalQuorum => {
            per_dc.insert(issuer_dc.clone(), n_local / 2);
            n_local / 2
        },
        Consistency::All => total - 1,
        Consistency::EachQuorum => {
            let mut sum = 0;
            for (d, c) in &per_dc_count {
                let m = if *d == issuer_dc { c / 2 } else { c / 2 + 1 };
                per_dc.insert(d.clone(), m);
                sum += m;
            }
            sum
        },
    };
    (n, per_dc)
}

#[derive(Debug, Default, Clone, PartialEq)]
struct Outcome {
    result: String,
    selection_failed: bool,
    consistency_failure: Option<(usize, usize)>,
    /// stamp of the local write(s), from the issuer's storage log
    written: Vec<(u64, HLCTimestamp, bool)>,
    /// nodes (other than the issuer) whose storage holds every written document at return
    holders_at_return: Vec<NodeId>,
    issuer_holds: bool,
    acked_for_real: usize,
    holders_after_heal: Vec<NodeId>,
    notes: Vec<String>,
    /// the call had not returned within the horizon
    pending: bool,
}

async fn holds<St: Storage>(store: &St, written: &[(u64, HLCTimestamp, bool)]) -> bool {
    let Ok(rows) = read_rows(store, KS).await else { return false };
    written.iter().all(|(id, ts, tomb)| match rows.get(id) {
        // the write itself, or a newer one for the same id
        Some((t, data)) => *t > *ts || (*t == *ts && data.is_none() == *tomb),
        None => false,
    })
}

async fn execute(sc: &Scenario) -> Outcome {
    reset_seams();
    let _wall = Wall::start();
    let mut out = Outcome::default();
    let mut cluster: Cluster<S> = Cluster::start(&sc.layout, |_| Arc::new(FaultStore::new(Arc::new(MemStore::default())))).await;
    let ii = cluster.index_of(sc.issuer);
    if let Some(k) = sc.grew_from {
        let mut small: Vec<(NodeId, String)> = sc.layout.iter().filter(|(n, _)| *n == sc.issuer).cloned().collect();
        small.extend(sc.layout.iter().filter(|(n, _)| *n != sc.issuer).take(k.saturating_sub(1)).cloned());
        cluster.nodes[ii].set_membership(&small).await;
        let _ = cluster.nodes[ii].handle.select_nodes(sc.level).await;
        cluster.nodes[ii].set_membership(&sc.layout).await;
    }
    if let Some(pre) = sc.pre_advance {
        let _ = cluster.nodes[ii].handle.select_nodes(pre).await;
    }
    // faults
    let verdicts: BTreeMap<std::net::SocketAddr, NetVerdict> = sc
        .peers
        .iter()
        .map(|(n, p)| {
            (
                node_addr(*n),
                match p {
                    Peer::DropRequest => NetVerdict::DropRequest,
                    Peer::DropReply => NetVerdict::DropReply,
                    _ => NetVerdict::Deliver,
                },
            )
        })
        .collect();
    datacake_rpc::verif::set_policy(move |dst, _| verdicts.get(&dst).copied().unwrap_or(NetVerdict::Deliver));
    for (n, p) in &sc.peers {
        if *p == Peer::StorageFails {
            let i = cluster.index_of(*n);
            cluster.nodes[i].storage.plan([Fault::FailBefore]);
        }
        if *p == Peer::StoragePartial {
            let i = cluster.index_of(*n);
            cluster.nodes[i].storage.plan([Fault::FailAfter(1)]);
        }
        if *p == Peer::Stuck {
            let i = cluster.index_of(*n);
            cluster.nodes[i].storage.plan([Fault::ParkAfter(0)]);
        }
        if *p == Peer::NoService {
            let i = cluster.index_of(*n);
            cluster.nodes[i]
                .server
                .remove_service(<datacake_eventual_consistency::verif::ConsistencyService<S> as datacake_rpc::RpcService>::service_name());
        }
    }
    let log_before = cluster.nodes[ii].storage.log_len();
    let store = cluster.nodes[ii].store.clone();
    let stuck = sc.peers.values().any(|p| *p == Peer::Stuck);
    let call = async {
        match sc.kind {
            Kind::Put => store.put(KS, 1, b"one".to_vec(), sc.level).await,
            Kind::PutMany => store.put_many(KS, vec![(1u64, b"one".to_vec()), (2u64, b"two".to_vec())], sc.level).await,
            Kind::Del => store.del(KS, 1, sc.level).await,
            Kind::DelMany => store.del_many(KS, vec![1u64, 2u64], sc.level).await,
        }
    };
    // a horizon of 60 s of virtual time: a call still pending then is reported as such
    let res = match tokio::time::timeout(std::time::Duration::from_secs(60), call).await {
        Ok(r) => r,
        Err(_) => {
            out.result = "pending after 60 s".into();
            out.pending = true;
            Ok(())
        },
    };
    // ---- the moment the call returned: inspect every node's storage
    let log = cluster.nodes[ii].storage.log();
    for e in &log[log_before..] {
        for (id, ts, data) in &e.docs {
            out.written.push((*id, *ts, data.is_none()));
        }
    }
    out.issuer_holds = !out.written.is_empty() && holds(cluster.nodes[ii].storage.as_ref(), &out.written).await;
    for n in &cluster.nodes {
        if n.id != sc.issuer && !out.written.is_empty() && holds(n.storage.as_ref(), &out.written).await {
            out.holders_at_return.push(n.id);
        }
    }
    match &res {
        Ok(()) if out.pending => {},
        Ok(()) => out.result = "Ok".into(),
        Err(StoreError::ConsistencyError(ConsistencyError::NotEnoughNodes { .. })) => {
            out.result = "NotEnoughNodes".into();
            out.selection_failed = true;
        },
        Err(StoreError::ConsistencyError(ConsistencyError::ConsistencyFailure { responses, required, .. })) => {
            out.result = format!("ConsistencyFailure(responses={responses}, required={required})");
            out.consistency_failure = Some((*responses, *required));
        },
        Err(e) => out.result = format!("other error: {e}"),
    }
    // who really acknowledged: holds the write, and its reply was not dropped
    out.acked_for_real = out
        .holders_at_return
        .iter()
        .filter(|n| sc.peers.get(n).copied().unwrap_or(Peer::Ack) == Peer::Ack)
        .count();
    if stuck {
        // the stalled replica's actor never answers again: no heal phase in these scenarios
        out.holders_after_heal = sc.layout.iter().map(|(n, _)| *n).collect();
        return out;
    }
    // ---- heal: the write must still be replicated later
    datacake_rpc::verif::set_policy(|_, _| NetVerdict::Deliver);
    for n in &cluster.nodes {
        n.storage.plan([]);
    }
    cluster.nodes[ii].tick().await;
    let order = cluster.all_pairs();
    cluster.closing_round(&order).await;
    for n in &cluster.nodes {
        if !out.written.is_empty() && holds(n.storage.as_ref(), &out.written).await {
            out.holders_after_heal.push(n.id);
        }
    }
    out
}

fn judge(sc: &Scenario, out: &Outcome, st: &mut Stats) {
    st.inc("executions");
    let case = || scenario_json(sc).set("observed", format!("{out:?}"));
    let (need, per_dc) = required(sc.level, &sc.layout, sc.issuer);
    let level_class = match sc.level {
        Consistency::None => "none",
        Consistency::One | Consistency::Two | Consistency::Three => "counted",
        Consistency::All => "all",
        _ => "quorum",
    };
    let level_class = if sc.grew_from.is_some() { format!("{level_class}/after-cluster-growth") } else { level_class.to_string() };
    if out.selection_failed {
        st.inc("selection_failures_recorded");
        let others = sc.layout.len() - 1;
        if others >= need {
            st.violation(
                "selection-failed-although-enough-nodes-exist",
                || format!("{:?} needs {need} other node(s), {others} exist, yet NotEnoughNodes", sc.level),
                case,
            );
        }
        return;
    }
    if out.pending {
        st.inc("calls_still_pending_with_a_stalled_replica");
        if !sc.peers.values().any(|p| *p == Peer::Stuck) {
            st.violation("call-never-returned", || "the call was still pending after 60 s although no replica was stalled".to_string(), case);
        }
        return;
    }
    if out.result.starts_with("other error") {
        st.violation("unexpected-error", || out.result.clone(), case);
        return;
    }
    if out.written.is_empty() {
        st.violation("no-local-write", || "the issuer's storage saw no write".to_string(), case);
        return;
    }
    if !out.issuer_holds {
        st.violation("local-write-not-in-place", || format!("call returned {} but the issuer's storage does not hold the write", out.result), case);
    }
    if out.result == "Ok" {
        st.inc("calls_ok");
        if out.holders_at_return.len() < need {
            st.violation(
                &format!("ok-with-too-few-replicas/{level_class}"),
                || {
                    format!(
                        "{:?} returned Ok but only {} other node(s) hold the write ({:?}); the level requires {need}",
                        sc.level,
                        out.holders_at_return.len(),
                        out.holders_at_return
                    )
                },
                case,
            );
        }
        for (dc, m) in &per_dc {
            let got = out
                .holders_at_return
                .iter()
                .filter(|n| sc.layout.iter().any(|(id, d)| id == *n && d == dc))
                .count();
            if got < *m {
                st.violation(
                    &format!("ok-without-per-dc-majority/{level_class}"),
                    || format!("{:?} returned Ok but only {got} node(s) of {dc} hold the write; {m} required", sc.level),
                    case,
                );
            }
        }
    }
    if let Some((responses, _required)) = out.consistency_failure {
        st.inc("calls_with_consistency_failure");
        if responses != out.acked_for_real {
            st.violation(
                "reported-responses-differ-from-real-acknowledgements",
                || format!("error reports {responses} response(s); {} replica(s) applied the write and had their reply delivered", out.acked_for_real),
                case,
            );
        }
    }
    // either way the write is replicated later
    if out.holders_after_heal.len() != sc.layout.len() {
        st.violation(
            "write-not-replicated-after-heal",
            || format!("after the faults cleared, a batch flush and a repair round only {:?} hold the write", out.holders_after_heal),
            case,
        );
    }
    st.seen("outcomes", fp128(&(format!("{:?}", sc.level), &out.result, out.holders_at_return.len())));
}

fn layouts(thorough: bool) -> Vec<Vec<(NodeId, String)>> {
    let mk = |sizes: &[usize]| -> Vec<(NodeId, String)> {
        let mut v = Vec::new();
        let mut id = 1u8;
        for (d, n) in sizes.iter().enumerate() {
            for _ in 0..*n {
                v.push((id, format!("dc{d}")));
                id += 1;
            }
        }
        v
    };
    let mut out = vec![mk(&[2]), mk(&[3]), mk(&[1, 1]), mk(&[2, 1]), mk(&[1, 2])];
    if thorough {
        out.extend([mk(&[4]), mk(&[2, 2]), mk(&[3, 1]), mk(&[1, 3]), mk(&[1, 1, 1]), mk(&[2, 1, 1])]);
    }
    out
}

fn peer_assignments(others: &[NodeId], choices: &[Peer]) -> Vec<BTreeMap<NodeId, Peer>> {
    let mut out = vec![BTreeMap::new()];
    for n in others {
        out = out
            .into_iter()
            .flat_map(|m: BTreeMap<NodeId, Peer>| {
                choices.iter().map(move |c| {
                    let mut m2 = m.clone();
                    m2.insert(*n, *c);
                    m2
                })
            })
            .collect();
    }
    out
}

pub fn run(tier: Tier) -> i32 {
    let mut report = Report::new("C06", tier, "fault_enumeration");
    let mut scenarios = Vec::new();
    let kinds: Vec<Kind> = vec![Kind::Put, Kind::PutMany, Kind::Del, Kind::DelMany];
    let pres: Vec<Option<Consistency>> = if tier.is_thorough() {
        vec![None, Some(Consistency::One), Some(Consistency::Two)]
    } else {
        vec![None, Some(Consistency::One)]
    };
    for layout in layouts(tier.is_thorough()) {
        for (issuer, _) in &layout {
            let others: Vec<NodeId> = layout.iter().map(|(n, _)| *n).filter(|n| n != issuer).collect();
            for peers in peer_assignments(&others, &[Peer::Ack, Peer::DropRequest, Peer::DropReply, Peer::StorageFails, Peer::StoragePartial, Peer::NoService]) {
                for level in LEVELS {
                    for kind in &kinds {
                        // a single-document storage call cannot fail part-way
                        if matches!(kind, Kind::Put | Kind::Del) && peers.values().any(|p| *p == Peer::StoragePartial) {
                            continue;
                        }
                        for pre in &pres {
                            scenarios.push(Scenario {
                                layout: layout.clone(),
                                issuer: *issuer,
                                level,
                                kind: *kind,
                                pre_advance: *pre,
                                peers: peers.clone(),
                                grew_from: None,
                            });
                        }
                    }
                }
            }
        }
    }
    // larger clusters (more than four replicas to wait for; added after the seeded change
    // C06-e): up to `max_faulty` of the other nodes do not acknowledge
    let big: Vec<(Vec<usize>, usize)> = if tier.is_thorough() {
        vec![(vec![6], 2), (vec![3, 4], 2), (vec![3, 3, 3], 2), (vec![8], 1)]
    } else {
        vec![(vec![6], 2), (vec![3, 4], 1)]
    };
    for (sizes, max_faulty) in big {
        let mut layout: Vec<(NodeId, String)> = Vec::new();
        let mut id = 1u8;
        for (d, n) in sizes.iter().enumerate() {
            for _ in 0..*n {
                layout.push((id, format!("dc{d}")));
                id += 1;
            }
        }
        let issuers: Vec<NodeId> = vec![layout[0].0, layout[layout.len() - 1].0];
        for issuer in issuers {
            let others: Vec<NodeId> = layout.iter().map(|(n, _)| *n).filter(|n| *n != issuer).collect();
            // every set of at most max_faulty non-acknowledging nodes x {request lost, storage failure}
            let mut assignments: Vec<BTreeMap<NodeId, Peer>> = vec![others.iter().map(|n| (*n, Peer::Ack)).collect()];
            for _ in 0..max_faulty {
                let mut next = Vec::new();
                for a in &assignments {
                    let first_free = a.iter().rev().take_while(|(_, p)| **p == Peer::Ack).count();
                    for n in others.iter().skip(others.len() - first_free) {
                        for f in [Peer::DropRequest, Peer::StorageFails, Peer::NoService] {
                            let mut b = a.clone();
                            b.insert(*n, f);
                            next.push(b);
                        }
                    }
                }
                assignments.extend(next.clone());
                if next.is_empty() {
                    break;
                }
            }
            assignments.sort_by_key(|a| format!("{a:?}"));
            assignments.dedup();
            for peers in assignments {
                for level in [Consistency::All, Consistency::Quorum, Consistency::EachQuorum, Consistency::LocalQuorum, Consistency::Three] {
                    for kind in &kinds {
                        scenarios.push(Scenario { layout: layout.clone(), issuer, level, kind: *kind, pre_advance: None, peers: peers.clone(), grew_from: None });
                    }
                }
            }
        }
    }
    // one stalled replica, every other one acknowledging (added after the seeded change C06-l)
    for layout in layouts(tier.is_thorough()) {
        for (issuer, _) in &layout {
            let others: Vec<NodeId> = layout.iter().map(|(n, _)| *n).filter(|n| n != issuer).collect();
            for victim in &others {
                let peers: BTreeMap<NodeId, Peer> = others.iter().map(|n| (*n, if n == victim { Peer::Stuck } else { Peer::Ack })).collect();
                for level in LEVELS {
                    for kind in [Kind::Put, Kind::PutMany, Kind::Del, Kind::DelMany] {
                        scenarios.push(Scenario { layout: layout.clone(), issuer: *issuer, level, kind, pre_advance: None, peers: peers.clone(), grew_from: None });
                    }
                }
            }
        }
    }
    // the cluster has just grown: a selection made at the same level under the smaller
    // membership must not decide who the write goes to (added after the seeded change C06-j)
    for layout in layouts(tier.is_thorough()) {
        if layout.len() < 3 {
            continue;
        }
        for (issuer, _) in &layout {
            let others: Vec<NodeId> = layout.iter().map(|(n, _)| *n).filter(|n| n != issuer).collect();
            let peers: BTreeMap<NodeId, Peer> = others.iter().map(|n| (*n, Peer::Ack)).collect();
            for level in LEVELS {
                for k in 1..layout.len() {
                    for kind in [Kind::Put, Kind::DelMany] {
                        scenarios.push(Scenario { layout: layout.clone(), issuer: *issuer, level, kind, pre_advance: None, peers: peers.clone(), grew_from: Some(k) });
                    }
                }
            }
        }
    }
    let parts = par::par_map(&scenarios, |_, sc| {
        let mut st = Stats::default();
        let out = vkit::e2::block_on_fresh(execute(sc));
        if sc.grew_from.is_some() {
            st.inc("executions_after_cluster_growth");
        }
        judge(sc, &out, &mut st);
        if sc.peers.values().any(|p| *p != Peer::Ack) {
            st.inc("executions_with_a_failing_replica");
        }
        st
    });
    let mut total = Stats::default();
    for p in parts {
        total.merge(p);
    }
    total.sample(|| scenario_json(&scenarios[scenarios.len() / 2]));
    total.sample(|| scenario_json(&scenarios[scenarios.len() - 1]));
    let execs = total.get("executions");
    let ok = total.get("calls_ok");
    let failed = total.get("calls_with_consistency_failure");
    let with_fault = total.get("executions_with_a_failing_replica");
    let grown = total.get("executions_after_cluster_growth");
    let outcomes = total.distinct_count("outcomes");
    total.flush_into(&mut report);
    report.cover("evaluations", execs);
    report.cover("distinct_nontrivial", outcomes);
    report.cover(
        "rule",
        "cartesian product layout x issuer x level x operation kind x prior selection x every assignment of \
         {ack, request lost, reply lost, storage failure} to the other nodes; each executed on a real in-process cluster \
         through the public store handle; distinct_nontrivial = distinct (level, result, replicas holding the write at return)",
    );
    report.cover("scenarios", scenarios.len());
    report.cover("exhaustive", true);
    report.guard_nonzero("guard_calls_ok", ok);
    report.guard_nonzero("guard_calls_with_consistency_failure", failed);
    report.guard_nonzero("guard_executions_with_a_failing_replica", with_fault);
    report.cover("executions_after_cluster_growth", grown);
    report.guard_nonzero("guard_executions_after_cluster_growth", grown);
    report.assume("'readable from storage' is judged through the storage read surface (iter_metadata + get) of every node at the moment the call returns");
    report.assume("the issuer's own storage does not fail (the property speaks about replicas failing to acknowledge)");
    report.assume("selection failures (NotEnoughNodes) are C15's subject; here they are only checked to be justified by the layout");
    report.finish()
}

pub fn replay(case: &J) -> i32 {
    let parse_level = |s: &str| LEVELS.iter().copied().find(|l| format!("{l:?}") == s);
    let layout: Vec<(NodeId, String)> = case
        .get("layout")
        .and_then(|v| v.as_arr())
        .unwrap_or(&[])
        .iter()
        .filter_map(|e| {
            let (n, d) = e.as_str()?.split_once('@')?;
            Some((n.parse().ok()?, d.to_string()))
        })
        .collect();
    let peers: BTreeMap<NodeId, Peer> = case
        .get("peers")
        .and_then(|v| v.as_arr())
        .unwrap_or(&[])
        .iter()
        .filter_map(|e| {
            let (n, p) = e.as_str()?.split_once(':')?;
            let p = match p {
                "DropRequest" => Peer::DropRequest,
                "DropReply" => Peer::DropReply,
                "StorageFails" => Peer::StorageFails,
                "StoragePartial" => Peer::StoragePartial,
                "NoService" => Peer::NoService,
                "Stuck" => Peer::Stuck,
                _ => Peer::Ack,
            };
            Some((n.parse().ok()?, p))
        })
        .collect();
    let kind = match case.get("operation").and_then(|v| v.as_str()) {
        Some("PutMany") => Kind::PutMany,
        Some("Del") => Kind::Del,
        Some("DelMany") => Kind::DelMany,
        _ => Kind::Put,
    };
    let sc = Scenario {
        layout,
        issuer: case.get("issuer").and_then(|v| v.as_u64()).unwrap_or(1) as NodeId,
        level: case.get("consistency").and_then(|v| v.as_str()).and_then(parse_level).unwrap_or(Consistency::All),
        kind,
        pre_advance: case.get("selection_made_before").and_then(|v| v.as_str()).and_then(parse_level),
        peers,
        grew_from: case.get("cluster_grew_from").and_then(|v| v.as_u64()).map(|k| k as usize),
    };
    let out = vkit::e2::block_on_fresh(execute(&sc));
    println!("{out:#?}");
    let mut st = Stats::default();
    judge(&sc, &out, &mut st);
    for f in &st.found {
        println!("{}: {}", f.key, f.what);
    }
    (!st.found.is_empty()) as i32
}
