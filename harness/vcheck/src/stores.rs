//! Harness-side storage: a boring map-based `Storage` implementation (so that a
//! set/store disagreement can only come from datacake's own logic) and `FaultStore`, a
//! wrapper that logs every mutating call and can fail it before anything is written,
//! fail a bulk call after exactly k documents (reporting exactly those ids), or park a
//! call forever after the inner write (a crash point inside a request).

use std::collections::{BTreeMap, VecDeque};
use std::sync::{Arc, Mutex};

use async_trait::async_trait;
use datacake_crdt::{HLCTimestamp, Key};
use datacake_eventual_consistency::{BulkMutationError, Document, DocumentMetadata, Storage};

#[derive(Debug)]
pub struct StoreErr(pub String);
impl std::fmt::Display for StoreErr {
    fn fmt(&self, f: &mut std::fmt::Formatter<'_>) -> std::fmt::Result {
        write!(f, "{}", self.0)
    }
}
impl std::error::Error for StoreErr {}

/// One row: (stamp, Some(bytes) if live / None if tombstone).
pub type Row = (HLCTimestamp, Option<Vec<u8>>);
pub type Rows = BTreeMap<(String, Key), Row>;

#[derive(Default)]
pub struct MapStore {
    rows: Mutex<Rows>,
}

impl MapStore {
    pub fn rows(&self) -> Rows {
        self.rows.lock().unwrap().clone()
    }
}

#[async_trait]
impl Storage for MapStore {
    type Error = StoreErr;
    type DocsIter = std::vec::IntoIter<Document>;
    type MetadataIter = std::vec::IntoIter<(Key, HLCTimestamp, bool)>;

    async fn get_keyspace_list(&self) -> Result<Vec<String>, StoreErr> {
        let rows = self.rows.lock().unwrap();
        let mut v: Vec<String> = rows.keys().map(|(k, _)| k.clone()).collect();
        v.dedup();
        Ok(v)
    }

    async fn iter_metadata(&self, keyspace: &str) -> Result<Self::MetadataIter, StoreErr> {
        let rows = self.rows.lock().unwrap();
        Ok(rows
            .iter()
            .filter(|((k, _), _)| k == keyspace)
            .map(|((_, id), (ts, data))| (*id, *ts, data.is_none()))
            .collect::<Vec<_>>()
            .into_iter())
    }

    async fn remove_tombstones(
        &self,
        keyspace: &str,
        keys: impl Iterator<Item = Key> + Send,
    ) -> Result<(), BulkMutationError<StoreErr>> {
        let mut rows = self.rows.lock().unwrap();
        for k in keys {
            rows.remove(&(keyspace.to_string(), k));
        }
        Ok(())
    }

    async fn put(&self, keyspace: &str, document: Document) -> Result<(), StoreErr> {
        self.rows.lock().unwrap().insert(
            (keyspace.to_string(), document.id()),
            (document.last_updated(), Some(document.data().to_vec())),
        );
        Ok(())
    }

    async fn multi_put(
        &self,
        keyspace: &str,
        documents: impl Iterator<Item = Document> + Send,
    ) -> Result<(), BulkMutationError<StoreErr>> {
        let mut rows = self.rows.lock().unwrap();
        for d in documents {
            rows.insert((keyspace.to_string(), d.id()), (d.last_updated(), Some(d.data().to_vec())));
        }
        Ok(())
    }

    async fn mark_as_tombstone(&self, keyspace: &str, doc_id: Key, timestamp: HLCTimestamp) -> Result<(), StoreErr> {
        self.rows
            .lock()
            .unwrap()
            .insert((keyspace.to_string(), doc_id), (timestamp, None));
        Ok(())
    }

    async fn mark_many_as_tombstone(
        &self,
        keyspace: &str,
        documents: impl Iterator<Item = DocumentMetadata> + Send,
    ) -> Result<(), BulkMutationError<StoreErr>> {
        let mut rows = self.rows.lock().unwrap();
        for d in documents {
            rows.insert((keyspace.to_string(), d.id), (d.last_updated, None));
        }
        Ok(())
    }

    async fn get(&self, keyspace: &str, doc_id: Key) -> Result<Option<Document>, StoreErr> {
        let rows = self.rows.lock().unwrap();
        Ok(match rows.get(&(keyspace.to_string(), doc_id)) {
            Some((ts, Some(data))) => Some(Document::new(doc_id, *ts, data.clone())),
            _ => None,
        })
    }

    async fn multi_get(
        &self,
        keyspace: &str,
        doc_ids: impl Iterator<Item = Key> + Send,
    ) -> Result<Self::DocsIter, StoreErr> {
        let rows = self.rows.lock().unwrap();
        let mut out = Vec::new();
        for id in doc_ids {
            if let Some((ts, Some(data))) = rows.get(&(keyspace.to_string(), id)) {
                out.push(Document::new(id, *ts, data.clone()));
            }
        }
        Ok(out.into_iter())
    }
}

// ------------------------------------------------------------------ FaultStore

#[derive(Clone, Copy, Debug, PartialEq, Eq, Hash, PartialOrd, Ord)]
pub enum Fault {
    /// The call succeeds.
    None,
    /// The call fails and nothing is written.
    FailBefore,
    /// A bulk call writes its first k documents, then fails reporting exactly those ids.
    FailAfter(usize),
    /// A bulk call writes every document except the one at this index, then fails reporting
    /// exactly the written ids (successes that are NOT a prefix of the batch).
    FailOnly(usize),
    /// The call writes its first k documents (everything for a single-document call when
    /// k >= 1) and then never returns: the node "crashes" inside the request.
    ParkAfter(usize),
}

#[derive(Clone, Debug, PartialEq)]
pub struct LogEntry {
    pub call: &'static str,
    pub keyspace: String,
    /// (id, stamp, Some(bytes) | None for a tombstone / removal)
    pub docs: Vec<(Key, HLCTimestamp, Option<Vec<u8>>)>,
    /// How many of `docs` reached the inner store.
    pub written: usize,
    pub fault: Fault,
    /// Process-wide sequence number of the call (orders the calls of different stores of one
    /// single-threaded execution).
    pub seq: u64,
}

static LOG_SEQ: std::sync::atomic::AtomicU64 = std::sync::atomic::AtomicU64::new(1);

thread_local! {
    static CALL_WINDOWS: std::cell::RefCell<Vec<(u8, u64, u64)>> = const { std::cell::RefCell::new(Vec::new()) };
}

/// Brackets one client call at `node`: on drop, the range of log sequence numbers that
/// passed while the call was running is recorded (thread-local, per execution).
pub struct CallWindow {
    node: u8,
    start: u64,
}

pub fn call_window(node: u8) -> CallWindow {
    CallWindow { node, start: LOG_SEQ.load(std::sync::atomic::Ordering::Relaxed) }
}

impl Drop for CallWindow {
    fn drop(&mut self) {
        let end = LOG_SEQ.load(std::sync::atomic::Ordering::Relaxed);
        CALL_WINDOWS.with(|w| w.borrow_mut().push((self.node, self.start, end)));
    }
}

pub fn clear_call_windows() {
    CALL_WINDOWS.with(|w| w.borrow_mut().clear());
}

pub fn call_windows() -> Vec<(u8, u64, u64)> {
    CALL_WINDOWS.with(|w| w.borrow().clone())
}

pub struct FaultStore<I: Storage> {
    pub inner: Arc<I>,
    plan: Mutex<VecDeque<Fault>>,
    log: Mutex<Vec<LogEntry>>,
    parked: std::sync::atomic::AtomicBool,
}

impl<I: Storage> FaultStore<I> {
    pub fn new(inner: Arc<I>) -> Self {
        Self {
            inner,
            plan: Mutex::new(VecDeque::new()),
            log: Mutex::new(Vec::new()),
            parked: std::sync::atomic::AtomicBool::new(false),
        }
    }

    /// Answers for the next mutating storage calls, in order (`None` once exhausted).
    pub fn plan(&self, faults: impl IntoIterator<Item = Fault>) {
        let mut p = self.plan.lock().unwrap();
        p.clear();
        p.extend(faults);
    }

    /// True once a call answered with `ParkAfter` has done its writes and stopped. With a
    /// backend that writes on its own thread this is the only reliable sign that the
    /// "crash inside a request" point has been reached.
    pub fn has_parked(&self) -> bool {
        self.parked.load(std::sync::atomic::Ordering::SeqCst)
    }

    async fn park<T>(&self) -> T {
        self.parked.store(true, std::sync::atomic::Ordering::SeqCst);
        std::future::pending().await
    }

    pub fn log(&self) -> Vec<LogEntry> {
        self.log.lock().unwrap().clone()
    }

    pub fn log_len(&self) -> usize {
        self.log.lock().unwrap().len()
    }

    fn next_fault(&self) -> Fault {
        self.plan.lock().unwrap().pop_front().unwrap_or(Fault::None)
    }

    fn record(&self, mut e: LogEntry) {
        e.seq = LOG_SEQ.fetch_add(1, std::sync::atomic::Ordering::Relaxed);
        self.log.lock().unwrap().push(e);
    }
}

/// Which documents of a bulk call reach the inner store under a fault.
fn written_indices(fault: Fault, len: usize) -> Vec<usize> {
    match fault {
        Fault::None => (0..len).collect(),
        Fault::FailBefore => vec![],
        Fault::FailAfter(k) | Fault::ParkAfter(k) => (0..k.min(len)).collect(),
        Fault::FailOnly(i) => (0..len).filter(|x| *x != i).collect(),
    }
}

fn injected() -> StoreErr {
    StoreErr("injected storage failure".into())
}

#[async_trait]
impl<I> Storage for FaultStore<I>
where
    I: Storage,
    I::Error: std::fmt::Display,
{
    type Error = StoreErr;
    type DocsIter = I::DocsIter;
    type MetadataIter = I::MetadataIter;

    async fn get_keyspace_list(&self) -> Result<Vec<String>, StoreErr> {
        self.inner.get_keyspace_list().await.map_err(|e| StoreErr(e.to_string()))
    }

    async fn iter_metadata(&self, keyspace: &str) -> Result<Self::MetadataIter, StoreErr> {
        self.inner.iter_metadata(keyspace).await.map_err(|e| StoreErr(e.to_string()))
    }

    async fn remove_tombstones(
        &self,
        keyspace: &str,
        keys: impl Iterator<Item = Key> + Send,
    ) -> Result<(), BulkMutationError<StoreErr>> {
        let keys: Vec<Key> = keys.collect();
        let fault = self.next_fault();
        let zero = HLCTimestamp::from_u64(0);
        let docs: Vec<_> = keys.iter().map(|k| (*k, zero, None)).collect();
        let written: Vec<usize> = written_indices(fault, keys.len());
        if !written.is_empty() || fault == Fault::None {
            self.inner
                .remove_tombstones(keyspace, written.iter().map(|i| keys[*i]))
                .await
                .map_err(|e| BulkMutationError::empty_with_error(StoreErr(e.to_string())))?;
        }
        self.record(LogEntry { call: "remove_tombstones", keyspace: keyspace.into(), docs, written: written.len(), fault, seq: 0 });
        match fault {
            Fault::None => Ok(()),
            Fault::ParkAfter(_) => self.park().await,
            _ => Err(BulkMutationError::new(injected(), written.iter().map(|i| keys[*i]).collect())),
        }
    }

    async fn put(&self, keyspace: &str, document: Document) -> Result<(), StoreErr> {
        let fault = self.next_fault();
        let docs = vec![(document.id(), document.last_updated(), Some(document.data().to_vec()))];
        let write = !matches!(fault, Fault::FailBefore | Fault::FailAfter(0) | Fault::ParkAfter(0) | Fault::FailOnly(_));
        if write {
            self.inner.put(keyspace, document).await.map_err(|e| StoreErr(e.to_string()))?;
        }
        self.record(LogEntry { call: "put", keyspace: keyspace.into(), docs, written: write as usize, fault, seq: 0 });
        match fault {
            Fault::None => Ok(()),
            Fault::ParkAfter(_) => self.park().await,
            _ if write => Ok(()), // a single-document call cannot "partially" fail
            _ => Err(injected()),
        }
    }

    async fn multi_put(
        &self,
        keyspace: &str,
        documents: impl Iterator<Item = Document> + Send,
    ) -> Result<(), BulkMutationError<StoreErr>> {
        let all: Vec<Document> = documents.collect();
        let fault = self.next_fault();
        let docs: Vec<_> = all
            .iter()
            .map(|d| (d.id(), d.last_updated(), Some(d.data().to_vec())))
            .collect();
        let written: Vec<usize> = written_indices(fault, all.len());
        if !written.is_empty() {
            self.inner
                .multi_put(keyspace, written.iter().map(|i| all[*i].clone()))
                .await
                .map_err(|e| BulkMutationError::empty_with_error(StoreErr(e.to_string())))?;
        }
        let docs = if matches!(fault, Fault::FailOnly(_)) { written.iter().map(|i| docs[*i].clone()).collect() } else { docs };
        self.record(LogEntry { call: "multi_put", keyspace: keyspace.into(), docs, written: written.len(), fault, seq: 0 });
        match fault {
            Fault::None => Ok(()),
            Fault::ParkAfter(_) => self.park().await,
            _ => Err(BulkMutationError::new(injected(), written.iter().map(|i| all[*i].id()).collect())),
        }
    }

    async fn mark_as_tombstone(&self, keyspace: &str, doc_id: Key, timestamp: HLCTimestamp) -> Result<(), StoreErr> {
        let fault = self.next_fault();
        let docs = vec![(doc_id, timestamp, None)];
        let write = !matches!(fault, Fault::FailBefore | Fault::FailAfter(0) | Fault::ParkAfter(0) | Fault::FailOnly(_));
        if write {
            self.inner
                .mark_as_tombstone(keyspace, doc_id, timestamp)
                .await
                .map_err(|e| StoreErr(e.to_string()))?;
        }
        self.record(LogEntry { call: "mark_as_tombstone", keyspace: keyspace.into(), docs, written: write as usize, fault, seq: 0 });
        match fault {
            Fault::None => Ok(()),
            Fault::ParkAfter(_) => self.park().await,
            _ if write => Ok(()),
            _ => Err(injected()),
        }
    }

    async fn mark_many_as_tombstone(
        &self,
        keyspace: &str,
        documents: impl Iterator<Item = DocumentMetadata> + Send,
    ) -> Result<(), BulkMutationError<StoreErr>> {
        let all: Vec<DocumentMetadata> = documents.collect();
        let fault = self.next_fault();
        let docs: Vec<_> = all.iter().map(|d| (d.id, d.last_updated, None)).collect();
        let written: Vec<usize> = written_indices(fault, all.len());
        if !written.is_empty() {
            self.inner
                .mark_many_as_tombstone(keyspace, written.iter().map(|i| all[*i]))
                .await
                .map_err(|e| BulkMutationError::empty_with_error(StoreErr(e.to_string())))?;
        }
        let docs = if matches!(fault, Fault::FailOnly(_)) { written.iter().map(|i| docs[*i].clone()).collect() } else { docs };
        self.record(LogEntry { call: "mark_many_as_tombstone", keyspace: keyspace.into(), docs, written: written.len(), fault, seq: 0 });
        match fault {
            Fault::None => Ok(()),
            Fault::ParkAfter(_) => self.park().await,
            _ => Err(BulkMutationError::new(injected(), written.iter().map(|i| all[*i].id).collect())),
        }
    }

    async fn get(&self, keyspace: &str, doc_id: Key) -> Result<Option<Document>, StoreErr> {
        self.inner.get(keyspace, doc_id).await.map_err(|e| StoreErr(e.to_string()))
    }

    async fn multi_get(
        &self,
        keyspace: &str,
        doc_ids: impl Iterator<Item = Key> + Send,
    ) -> Result<Self::DocsIter, StoreErr> {
        self.inner.multi_get(keyspace, doc_ids).await.map_err(|e| StoreErr(e.to_string()))
    }
}

/// Reads every row of a keyspace through the public read surface of a store.
pub async fn read_rows<S: Storage>(store: &S, keyspace: &str) -> Result<BTreeMap<Key, Row>, String> {
    let mut out = BTreeMap::new();
    let meta: Vec<(Key, HLCTimestamp, bool)> = store
        .iter_metadata(keyspace)
        .await
        .map_err(|e| e.to_string())?
        .collect();
    for (id, ts, tomb) in meta {
        if tomb {
            out.insert(id, (ts, None));
        } else {
            let doc = store.get(keyspace, id).await.map_err(|e| e.to_string())?;
            match doc {
                Some(d) => {
                    // the metadata stamp is what the row claims; keep get's bytes
                    let _ = d.last_updated();
                    out.insert(id, (ts, Some(d.data().to_vec())));
                },
                None => {
                    out.insert(id, (ts, Some(b"<metadata says live, get returns nothing>".to_vec())));
                },
            }
        }
    }
    Ok(out)
}
