//! vcheck — one binary, one module per property.
//!
//!   vcheck <Cxx> [quick|thorough]
//!   vcheck --replay <file>

mod c01;
mod c02;
mod c03;
mod c04;
mod c05;
mod c06;
mod c07;
mod c08;
mod c08_actor;
mod c08_cluster;
mod c09;
mod c10;
mod c11;
mod c12;
mod c13;
mod c15;
mod c16;
mod c16_services;
mod c17;
mod c18;
mod c19;
mod crdt;
mod gen;
mod stores;
mod world;

use vkit::{json, Tier};

fn usage() -> ! {
    eprintln!("usage: vcheck <Cxx> [quick|thorough] | vcheck --replay <file>");
    std::process::exit(2)
}

fn main() {
    vkit::quiet::install_hook();
    let args: Vec<String> = std::env::args().skip(1).collect();
    if args.is_empty() {
        usage();
    }
    if args[0] == "--c19-blob-worker" {
        // one undecodable-state probe per process: decoding damaged bytes may abort
        std::process::exit(c19::blob_worker(args.get(1).map(|s| s.as_str()).unwrap_or("")));
    }
    if args[0] == "--c17-part" {
        // one backend block per process (thread creation contends inside one address space)
        std::process::exit(c17::part_worker(&args[1..]));
    }
    if args[0] == "--replay" {
        let path = args.get(1).unwrap_or_else(|| usage());
        let text = std::fs::read_to_string(path).unwrap_or_else(|e| {
            eprintln!("cannot read {path}: {e}");
            std::process::exit(2)
        });
        let doc = json::parse(&text).unwrap_or_else(|e| {
            eprintln!("cannot parse {path}: {e}");
            std::process::exit(2)
        });
        let prop = doc.get("property").and_then(|v| v.as_str()).unwrap_or("");
        let case = doc.get("case").cloned().unwrap_or(json::J::Null);
        println!("replaying {} key={}", prop, doc.get("key").and_then(|v| v.as_str()).unwrap_or("?"));
        let code = match prop {
            "C01" => c01::replay(&case),
            "C02" => c02::replay(&case),
            "C03" => c03::replay(&case),
            "C04" => c04::replay(&case),
            "C05" => c05::replay(&case),
            "C06" => c06::replay(&case),
            "C07" => c07::replay(&case),
            "C08" => c08::replay(&case),
            "C09" => c09::replay(&case),
            "C10" => c10::replay(&case),
            "C11" => c11::replay(&case),
            "C12" => c12::replay(&case),
            "C13" => c13::replay(&case),
            "C15" => c15::replay(&case),
            "C16" => c16::replay(&case),
            "C17" => c17::replay(&case),
            "C18" => c18::replay(&case),
            "C19" => c19::replay(&case),
            _ => {
                eprintln!("no replay for property {prop:?}");
                2
            },
        };
        if code == 1 {
            println!("REPLAY: violation reproduced");
        } else if code == 0 {
            println!("REPLAY: no violation on this tree");
        }
        std::process::exit(code);
    }
    let tier = match args.get(1).map(|s| s.as_str()).or(std::env::var("VERIF_TIER").ok().as_deref()) {
        Some("thorough") => Tier::Thorough,
        _ => Tier::Quick,
    };
    let code = match args[0].as_str() {
        "C01" => c01::run(tier),
        "C02" => c02::run(tier),
        "C03" => c03::run(tier),
        "C04" => c04::run(tier),
        "C05" => c05::run(tier),
        "C06" => c06::run(tier),
        "C07" => c07::run(tier),
        "C08" => c08::run(tier),
        "C09" => c09::run(tier),
        "C10" => c10::run(tier),
        "C11" => c11::run(tier),
        "C12" => c12::run(tier),
        "C13" => c13::run(tier),
        "C15" => c15::run(tier),
        "C16" => c16::run(tier),
        "C17" => c17::run(tier),
        "C18" => c18::run(tier),
        "C19" => c19::run(tier),
        _ => usage(),
    };
    std::process::exit(code);
}
