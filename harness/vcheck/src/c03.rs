//! C03 — merging replica states is commutative, associative and idempotent.
//!
//! Engine E1 (Layer A): the state sets of `gen.rs` (P1 gap-free prefixes, P2 inside one
//! forgiveness period, each closed under one level of merging) are enumerated
//! exhaustively; the algebraic laws are evaluated with the real `OrSWotSet::merge` on
//! every ordered pair and on every ordered triple of a fixed sub-family.

use datacake_crdt::HLCTimestamp;
use vkit::{fp128, par, Report, Stats, Tier, J};

use crate::crdt::*;
use crate::gen::*;

type Live = Vec<Option<HLCTimestamp>>;

fn merged(a: &Set2, b: &Set2) -> Set2 {
    let mut x = a.clone();
    x.merge(b.clone());
    x
}

fn live(s: &Set2) -> Live {
    live_view(s, &KEYS)
}

fn case2(family: &str, a: &Labeled, b: &Labeled) -> J {
    J::obj()
        .set("family", family)
        .set("a", a.built_by.to_json())
        .set("b", b.built_by.to_json())
}

fn case3(family: &str, a: &Labeled, b: &Labeled, c: &Labeled) -> J {
    case2(family, a, b).set("c", c.built_by.to_json())
}

/// Adds the pairwise merges of a strided sub-family to the state list (one level of
/// closure under merging), deduplicated by full snapshot.
fn close_under_merge(states: &mut Vec<Labeled>, sub: usize) {
    let idx = stride_indices(states.len(), sub);
    let mut seen: std::collections::HashSet<_> =
        states.iter().map(|s| s.snap.clone()).collect();
    let mut extra = Vec::new();
    for &i in &idx {
        for &j in &idx {
            if i == j {
                continue;
            }
            let m = merged(&states[i].set, &states[j].set);
            let snap = m.verif_snapshot();
            if seen.insert(snap.clone()) {
                // The union of the two prefix vectors (P1) keeps the label meaningful.
                let prefix = states[i]
                    .prefix
                    .iter()
                    .zip(&states[j].prefix)
                    .map(|(a, b)| *a.max(b))
                    .collect();
                extra.push(Labeled {
                    built_by: Prov::Merge(
                        Box::new(states[i].built_by.clone()),
                        Box::new(states[j].built_by.clone()),
                    ),
                    prefix,
                    set: m,
                    snap,
                });
            }
        }
    }
    states.extend(extra);
}

pub fn stride_indices(n: usize, want: usize) -> Vec<usize> {
    if n <= want {
        return (0..n).collect();
    }
    // Evenly spread, always including the first and the last state.
    (0..want).map(|i| i * (n - 1) / (want - 1)).collect()
}

fn check_family(family: &str, states: &[Labeled], triple_sub: usize) -> Stats {
    let idx: Vec<usize> = (0..states.len()).collect();
    // ---- all ordered pairs
    let parts = par::par_map(&idx, |_, &i| {
        let mut st = Stats::default();
        let a = &states[i];
        let aa = merged(&a.set, &a.set);
        st.inc("merges");
        if live(&aa) != live(&a.set) {
            st.violation(
                "self-merge-changes-lookups",
                || format!("a merged with itself: {:?} -> {:?}", live(&a.set), live(&aa)),
                || case2(family, a, a),
            );
        }
        for b in states {
            st.inc("pairs");
            let ab = merged(&a.set, &b.set);
            let ba = merged(&b.set, &a.set);
            let lab = live(&ab);
            let lba = live(&ba);
            st.add("merges", 2);
            if lab != lba {
                st.violation(
                    "not-commutative",
                    || {
                        format!(
                            "a<-b gives {} but b<-a gives {}",
                            live_json(&lab).to_string_compact(),
                            live_json(&lba).to_string_compact()
                        )
                    },
                    || case2(family, a, b),
                );
            }
            let want = views_live(&reference_join(&a.snap, &b.snap, &KEYS));
            if lab != want {
                st.violation(
                    "merge-is-not-newest-per-key",
                    || {
                        format!(
                            "a<-b gives {} but the newer of both sides per key is {}",
                            live_json(&lab).to_string_compact(),
                            live_json(&want).to_string_compact()
                        )
                    },
                    || case2(family, a, b),
                );
            } else {
                st.seen("outcomes", fp128(&lab));
            }
            // idempotence: re-merging something already merged changes nothing
            let abb = merged(&ab, &b.set);
            let aba = merged(&ab, &a.set);
            let abab = merged(&ab, &ba);
            st.add("merges", 3);
            if live(&abb) != lab || live(&aba) != lab || live(&abab) != lab {
                st.violation(
                    "re-merge-changes-lookups",
                    || {
                        format!(
                            "(a<-b)={} then <-b {} / <-a {} / <-(b<-a) {}",
                            live_json(&lab).to_string_compact(),
                            live_json(&live(&abb)).to_string_compact(),
                            live_json(&live(&aba)).to_string_compact(),
                            live_json(&live(&abab)).to_string_compact()
                        )
                    },
                    || case2(family, a, b),
                );
            }
            if a.snap != b.snap && lab != live(&a.set) {
                st.inc("pairs_where_merge_changed_lookups");
            }
        }
        st
    });
    let mut all = Stats::default();
    for p in parts {
        all.merge(p);
    }

    // ---- all ordered triples of a sub-family: one representative per distinct
    // (live entries, tombstones, purge cut-offs) projection, i.e. every combination of
    // what three replicas can hold per key; evenly thinned only if that exceeds the cap.
    let mut reps = Vec::new();
    let mut classes = std::collections::HashSet::new();
    for (i, s) in states.iter().enumerate() {
        if classes.insert((s.snap.entries.clone(), s.snap.dead.clone(), s.snap.safe_stamps.clone())) {
            reps.push(i);
        }
    }
    all.add("triple_classes", reps.len() as u64);
    let sub: Vec<usize> = if reps.len() > triple_sub {
        all.add("triple_families_capped", 1);
        stride_indices(reps.len(), triple_sub).into_iter().map(|i| reps[i]).collect()
    } else {
        reps
    };
    let parts = par::par_map(&sub, |_, &i| {
        let mut st = Stats::default();
        let a = &states[i];
        for &j in &sub {
            let b = &states[j];
            let ab = merged(&a.set, &b.set);
            for &k in &sub {
                let c = &states[k];
                st.inc("triples");
                let left = merged(&ab, &c.set);
                let bc = merged(&b.set, &c.set);
                let right = merged(&a.set, &bc);
                st.add("merges", 3);
                let ll = live(&left);
                if ll != live(&right) {
                    st.violation(
                        "not-associative",
                        || {
                            format!(
                                "(a<-b)<-c gives {} but a<-(b<-c) gives {}",
                                live_json(&ll).to_string_compact(),
                                live_json(&live(&right)).to_string_compact()
                            )
                        },
                        || case3(family, a, b, c),
                    );
                }
                // transitive exchange round a<-b, c<-a', b<-c', a'<-b': all three agree
                let c1 = merged(&c.set, &ab);
                let b1 = merged(&b.set, &c1);
                let a2 = merged(&ab, &b1);
                st.add("merges", 3);
                if live(&c1) != ll || live(&b1) != ll || live(&a2) != ll {
                    st.violation(
                        "transitively-merged-replicas-differ",
                        || {
                            format!(
                                "after a<-b, c<-a, b<-c, a<-b lookups are a:{} b:{} c:{} (a<-b<-c = {})",
                                live_json(&live(&a2)).to_string_compact(),
                                live_json(&live(&b1)).to_string_compact(),
                                live_json(&live(&c1)).to_string_compact(),
                                live_json(&ll).to_string_compact()
                            )
                        },
                        || case3(family, a, b, c),
                    );
                }
            }
        }
        st
    });
    for p in parts {
        all.merge(p);
    }
    all.add("states", states.len() as u64);
    if let (Some(a), Some(b)) = (states.get(states.len() / 2), states.last()) {
        all.sample(|| case2(family, a, b));
    }
    all
}

pub fn run(tier: Tier) -> i32 {
    let mut report = Report::new("C03", tier, "model_checking");
    let mut total = Stats::default();
    let mut families = Vec::new();

    let triple_sub = tier.pick(100, 250);
    let closure_sub = tier.pick(24, 60);

    for (name, history) in p1_histories(tier.is_thorough()) {
        let mut states = p1_states(&history);
        let base = states.len();
        close_under_merge(&mut states, closure_sub);
        families.push(
            J::obj()
                .set("family", format!("P1: {name}"))
                .set("base_states", base)
                .set("with_merge_closure", states.len()),
        );
        total.merge(check_family(&format!("P1: {name}"), &states, triple_sub));
    }
    {
        let depth = tier.pick(3, 4);
        let mut states = p2_states(&p2_pool(), depth);
        let base = states.len();
        close_under_merge(&mut states, closure_sub);
        families.push(
            J::obj()
                .set("family", format!("P2: pool of 8 within 50 min, depth {depth}"))
                .set("base_states", base)
                .set("with_merge_closure", states.len()),
        );
        total.merge(check_family("P2", &states, triple_sub));
    }

    let states = total.get("states");
    let pairs = total.get("pairs");
    let triples = total.get("triples");
    let merges = total.get("merges");
    let changed = total.get("pairs_where_merge_changed_lookups");
    let outcomes = total.distinct_count("outcomes");
    total.flush_into(&mut report);
    report.cover("states", states);
    report.cover("transitions", merges);
    report.cover("traces_validated_against_impl", pairs + triples);
    report.cover("evaluations", pairs + triples);
    report.cover("distinct_nontrivial", outcomes);
    report.cover(
        "rule",
        "states = every replica state of the P1/P2 generators (deduplicated by full snapshot) plus one level of \
         pairwise merges; laws evaluated with the real merge on ALL ordered pairs and on all ordered triples of an \
         evenly spread sub-family; distinct_nontrivial = distinct merged lookup results",
    );
    report.cover("families", J::Arr(families));
    report.cover("triple_sub_family_size", triple_sub);
    report.cover("exhaustive", true);
    report.guard_nonzero("guard_pairs_where_merge_changed_lookups", changed);
    report.guard(outcomes >= 5, "fewer than 5 distinct merge outcomes");
    report.assume(
        "compared through lookups (get) for every key of the universe, as the property states; tombstones and \
         version vectors are not compared",
    );
    report.assume("2 keys, 2-3 origins, <=4 operations per origin (P1) / 8-operation pool to depth 3-4 (P2)");
    report.finish()
}

pub fn replay(case: &J) -> i32 {
    let get = |k: &str| case.get(k).and_then(Prov::rebuild);
    let (Some(a), Some(b)) = (get("a"), get("b")) else {
        eprintln!("bad case");
        return 2;
    };
    let mut bad = false;
    let ab = merged(&a, &b);
    let ba = merged(&b, &a);
    println!("a        = {}", snap_json(&a.verif_snapshot()).to_string_compact());
    println!("b        = {}", snap_json(&b.verif_snapshot()).to_string_compact());
    println!("a<-b     : {}", live_json(&live(&ab)).to_string_compact());
    println!("b<-a     : {}", live_json(&live(&ba)).to_string_compact());
    let want = views_live(&reference_join(&a.verif_snapshot(), &b.verif_snapshot(), &KEYS));
    println!("reference: {}", live_json(&want).to_string_compact());
    bad |= live(&ab) != live(&ba) || live(&ab) != want;
    let abb = merged(&ab, &b);
    println!("(a<-b)<-b: {}", live_json(&live(&abb)).to_string_compact());
    bad |= live(&abb) != live(&ab);
    bad |= live(&merged(&a, &a)) != live(&a);
    if let Some(c) = get("c") {
        let left = merged(&ab, &c);
        let right = merged(&a, &merged(&b, &c));
        println!("(a<-b)<-c: {}", live_json(&live(&left)).to_string_compact());
        println!("a<-(b<-c): {}", live_json(&live(&right)).to_string_compact());
        bad |= live(&left) != live(&right);
        let c1 = merged(&c, &ab);
        let b1 = merged(&b, &c1);
        let a2 = merged(&ab, &b1);
        bad |= live(&c1) != live(&left) || live(&b1) != live(&left) || live(&a2) != live(&left);
    }
    bad as i32
}
