//! C16 — membership change events add up to the live membership.
//!
//! Engine: exhaustive enumeration of event schedules around the real
//! `watch_membership_changes` task (H4): every sequence of membership snapshots over a
//! small universe, pushed singly or in bursts (the watcher's input is itself a
//! latest-value channel), a subscriber created at every possible point exactly as
//! `DatacakeNode::membership_changes()` creates it, and its reads placed at every subset
//! of the later gaps. The subscriber applies `left` then `joined`, as the distributor and
//! the poller do.

use std::collections::BTreeMap;
use std::net::SocketAddr;

use datacake_node::verif::{new_handle, run_membership_watcher, start_node_selector, NodeMembership};
use datacake_node::{Clock, ClusterMember, DCAwareSelector, MembershipChange, NodeId, RpcNetwork};
use futures::StreamExt;
use tokio::sync::watch;
use vkit::e2::settle;
use vkit::{fp128, par, Report, Stats, Tier, J};

const SELF: NodeId = 0;

/// Addresses are shared between nodes: node 0 (self) lives at address 0, peers at address
/// 1 or 2, and a peer may take the address another peer held in the previous snapshot.
fn addr(_node: NodeId, variant: u8) -> SocketAddr {
    SocketAddr::from(([10, 0, 0, variant], 9000))
}

/// A snapshot of the peers (self is always added): node id -> address variant.
type Peers = BTreeMap<NodeId, u8>;

fn snapshots() -> Vec<Peers> {
    let mut v = Vec::new();
    for one in [None, Some(1u8), Some(2u8)] {
        for two in [None, Some(1u8), Some(2u8)] {
            if one.is_some() && one == two {
                continue; // two live nodes never share an address within one snapshot
            }
            let mut p = Peers::new();
            if let Some(a) = one {
                p.insert(1, a);
            }
            if let Some(a) = two {
                p.insert(2, a);
            }
            v.push(p);
        }
    }
    v
}

fn membership(p: &Peers) -> NodeMembership {
    let mut m = NodeMembership::new();
    m.insert(SELF, ClusterMember::new(SELF, addr(SELF, 0), "dc".into()));
    for (n, a) in p {
        m.insert(*n, ClusterMember::new(*n, addr(*n, *a), "dc".into()));
    }
    m
}

fn peers_json(p: &Peers) -> J {
    J::from(
        p.iter()
            .map(|(n, a)| format!("{n}@{}", addr(*n, *a)))
            .collect::<Vec<_>>(),
    )
}

#[derive(Clone, Debug, PartialEq, Eq, Hash)]
enum Ev {
    /// Publish a membership snapshot to the watcher's input channel.
    Push(usize),
    /// Let the watcher task run until it is idle.
    Watcher,
    /// Create the subscriber.
    Subscribe,
    /// The subscriber drains what its stream currently offers.
    Read,
}

fn ev_json(e: &Ev, snaps: &[Peers]) -> J {
    match e {
        Ev::Push(i) => J::obj().set("push", peers_json(&snaps[*i])),
        Ev::Watcher => J::from("watcher-runs"),
        Ev::Subscribe => J::from("subscribe"),
        Ev::Read => J::from("subscriber-reads"),
    }
}

#[derive(Default, Debug, Clone, PartialEq, Eq)]
struct Outcome {
    /// The subscriber's map at quiescence.
    subscriber: BTreeMap<NodeId, SocketAddr>,
    /// Every (id, address) the *watcher* ever put into a `left` list.
    published_left: Vec<(NodeId, SocketAddr)>,
    /// Every (id, address) that really departed (or changed address), per watcher run.
    really_left: Vec<(NodeId, SocketAddr)>,
    /// What an ideal subscriber (created first, reading after every watcher run) holds.
    ideal: BTreeMap<NodeId, SocketAddr>,
}

fn apply(map: &mut BTreeMap<NodeId, SocketAddr>, change: &MembershipChange) {
    for m in &change.left {
        map.remove(&m.node_id);
    }
    for m in &change.joined {
        map.insert(m.node_id, m.public_addr);
    }
}

async fn execute(snaps: &[Peers], events: &[Ev]) -> Outcome {
    let clock = Clock::new(SELF);
    let network = RpcNetwork::default();
    let selector = start_node_selector(addr(SELF, 0), "dc".into(), DCAwareSelector).await;
    let me = ClusterMember::new(SELF, addr(SELF, 0), "dc".into());
    let (handle, changes_tx) = new_handle(me, clock, network.clone(), selector.clone());
    let (snap_tx, snap_rx) = watch::channel(membership(&Peers::new()));
    tokio::spawn(run_membership_watcher(SELF, network, selector, snap_rx, changes_tx));

    let mut out = Outcome::default();
    // the ideal subscriber: exists from the very beginning and reads after every watcher run
    let mut ideal_stream = handle.membership_changes();
    let mut subscriber_stream = None;
    let mut last_processed = Peers::new();
    let mut pending: Option<Peers> = None;

    let drain = |stream: &mut tokio_stream::wrappers::WatchStream<MembershipChange>,
                 map: &mut BTreeMap<NodeId, SocketAddr>,
                 log: Option<&mut Vec<(NodeId, SocketAddr)>>| {
        let mut log = log;
        let waker = futures::task::noop_waker();
        let mut cx = std::task::Context::from_waker(&waker);
        while let std::task::Poll::Ready(Some(change)) = stream.poll_next_unpin(&mut cx) {
            if let Some(l) = log.as_deref_mut() {
                l.extend(change.left.iter().map(|m| (m.node_id, m.public_addr)));
            }
            apply(map, &change);
        }
    };

    settle().await;
    drain(&mut ideal_stream, &mut out.ideal, Some(&mut out.published_left));
    for ev in events {
        match ev {
            Ev::Push(i) => {
                let _ = snap_tx.send(membership(&snaps[*i]));
                pending = Some(snaps[*i].clone());
            },
            Ev::Watcher => {
                settle().await;
                if let Some(p) = pending.take() {
                    for (n, a) in &last_processed {
                        if p.get(n) != Some(a) {
                            out.really_left.push((*n, addr(*n, *a)));
                        }
                    }
                    last_processed = p;
                }
                drain(&mut ideal_stream, &mut out.ideal, Some(&mut out.published_left));
            },
            Ev::Subscribe => subscriber_stream = Some(handle.membership_changes()),
            Ev::Read => {
                if let Some(s) = subscriber_stream.as_mut() {
                    drain(s, &mut out.subscriber, None);
                }
            },
        }
    }
    out
}

/// All event schedules for one snapshot sequence.
fn schedules(seq: &[usize]) -> Vec<Vec<Ev>> {
    let n = seq.len();
    let mut out = Vec::new();
    // burst pattern: bit i set = the watcher runs after push i (the last push is always
    // followed by a watcher run so that membership becomes quiescent)
    for burst in 0..(1u32 << (n - 1)) {
        // base event list with slots where Subscribe / Read may be inserted
        let mut base: Vec<Ev> = Vec::new();
        for (i, s) in seq.iter().enumerate() {
            base.push(Ev::Push(*s));
            if i == n - 1 || burst & (1 << i) != 0 {
                base.push(Ev::Watcher);
            }
        }
        // subscription point: before event index p (0..=len)
        for p in 0..=base.len() {
            // gaps after the subscription where a read may happen: after each later event
            let gaps = base.len() - p;
            for reads in 0..(1u32 << gaps) {
                let mut evs = Vec::new();
                for (i, e) in base.iter().enumerate() {
                    if i == p {
                        evs.push(Ev::Subscribe);
                    }
                    evs.push(e.clone());
                    if i >= p && reads & (1 << (i - p)) != 0 {
                        evs.push(Ev::Read);
                    }
                }
                if p == base.len() {
                    evs.push(Ev::Subscribe);
                }
                // quiescence: the subscriber finally reads whatever is there
                evs.push(Ev::Read);
                out.push(evs);
            }
        }
    }
    out
}

fn case_json(snaps: &[Peers], events: &[Ev]) -> J {
    J::obj().set("events", J::Arr(events.iter().map(|e| ev_json(e, snaps)).collect()))
}

fn judge(snaps: &[Peers], seq: &[usize], events: &[Ev], out: &Outcome, st: &mut Stats) {
    let last = &snaps[*seq.last().unwrap()];
    let want: BTreeMap<NodeId, SocketAddr> = last.iter().map(|(n, a)| (*n, addr(*n, *a))).collect();
    let case = || case_json(snaps, events);
    let rank = events.len() as u64;
    st.inc("executions");

    // 1. the published stream itself (ideal subscriber)
    for gone in &out.really_left {
        if !out.published_left.contains(gone) {
            let reported_other_addr = out.published_left.iter().any(|(n, _)| *n == gone.0);
            let key = if reported_other_addr { "departure-reported-with-wrong-address" } else { "departure-never-reported" };
            st.violation_ranked(
                key,
                rank,
                || format!("node {} at {} disappeared but no change event lists it in `left` with that address (left lists seen: {:?})", gone.0, gone.1, out.published_left),
                case,
            );
        }
    }
    if out.ideal != want {
        st.violation_ranked(
            "prompt-subscriber-diverges",
            rank,
            || format!("a subscriber present from the start and reading after every change holds {:?}, live peers are {:?}", out.ideal, want),
            case,
        );
    }

    // 2. the subscriber under test
    let sub_pos = events.iter().position(|e| *e == Ev::Subscribe).unwrap();
    let late = events[..sub_pos].iter().any(|e| *e == Ev::Watcher);
    // slow: some watcher run after the subscription is not immediately followed by a read
    let mut slow = false;
    for i in sub_pos..events.len() {
        if events[i] == Ev::Watcher && events.get(i + 1) != Some(&Ev::Read) {
            slow = true;
        }
    }
    if late {
        st.inc("late_subscriptions");
    }
    if slow {
        st.inc("slow_readers");
    }
    if out.subscriber != want {
        let shape = match (late, slow) {
            (true, true) => "late-and-slow-subscriber",
            (true, false) => "late-subscriber",
            (false, true) => "slow-reader",
            (false, false) => "prompt-reader",
        };
        let missing = want.keys().any(|k| !out.subscriber.contains_key(k));
        let stale = out.subscriber.iter().any(|(k, v)| want.get(k) != Some(v));
        let kind = match (missing, stale) {
            (true, true) => "missing-and-stale-peers",
            (true, false) => "missing-peers",
            _ => "stale-peers",
        };
        st.violation_ranked(
            &format!("subscriber-diverges/{shape}/{kind}"),
            rank,
            || format!("at quiescence the subscriber holds {:?} but the live peers are {:?}", out.subscriber, want),
            case,
        );
    } else {
        st.seen("outcomes", fp128(&format!("{:?}", out.subscriber)));
    }
}

pub fn run(tier: Tier) -> i32 {
    let mut report = Report::new("C16", tier, "model_checking");
    let snaps = snapshots();
    let max_len = tier.pick(4, 5);
    let mut seqs: Vec<Vec<usize>> = Vec::new();
    let mut cur: Vec<Vec<usize>> = vec![vec![]];
    for _ in 0..max_len {
        cur = cur
            .into_iter()
            .flat_map(|s| {
                (0..snaps.len()).map(move |i| {
                    let mut t = s.clone();
                    t.push(i);
                    t
                })
            })
            .collect();
        seqs.extend(cur.clone());
    }
    let parts = par::par_map(&seqs, |_, seq| {
        let mut st = Stats::default();
        for events in schedules(seq) {
            let out = crate::c13::block_on(execute(&snaps, &events));
            st.add("transitions", events.len() as u64);
            st.seen("states", fp128(&format!("{:?}{:?}", seq, out)));
            judge(&snaps, seq, &events, &out, &mut st);
        }
        st.inc("snapshot_sequences");
        st
    });
    let mut total = Stats::default();
    for p in parts {
        total.merge(p);
    }
    let mid = &seqs[seqs.len() / 2];
    let sched = schedules(mid);
    total.sample(|| case_json(&snaps, &sched[sched.len() / 2]));

    let execs = total.get("executions");
    let transitions = total.get("transitions");
    let late = total.get("late_subscriptions");
    let slow = total.get("slow_readers");
    let states = total.distinct_count("states");
    let outcomes = total.distinct_count("outcomes");
    total.flush_into(&mut report);
    report.cover("states", states);
    report.cover("transitions", transitions);
    report.cover("traces_validated_against_impl", execs);
    report.cover("evaluations", execs);
    report.cover("distinct_nontrivial", states);
    report.cover(
        "rule",
        "every snapshot sequence up to max_len over 7 snapshots (peers {1,2}, each absent or at one of two addresses they may hand over to each other, never sharing one) x every burst \
         pattern x every subscription point x every subset of read positions, executed against the real watcher task; \
         states = distinct (sequence, observed outcome) pairs",
    );
    report.cover("max_sequence_length", max_len);
    report.cover("distinct_correct_final_maps", outcomes);
    report.cover("exhaustive", true);
    report.guard_nonzero("guard_late_subscriptions", late);
    report.guard_nonzero("guard_slow_readers", slow);
    report.assume("membership enters as explicit snapshots on the channel the gossip layer would publish to; chitchat itself is not explored");
    report.assume("the subscriber is a WatchStream obtained from DatacakeHandle::membership_changes() and applies `left` then `joined`, exactly like the distributor and the poller");
    crate::c16_services::run(tier, &mut report);
    report.finish()
}

pub fn replay(case: &J) -> i32 {
    if case.get("block").and_then(|v| v.as_str()) == Some("services") {
        return crate::c16_services::replay(case);
    }
    // events carry their snapshots; rebuild the snapshot table from them
    let mut snaps: Vec<Peers> = Vec::new();
    let mut events = Vec::new();
    let mut seq = Vec::new();
    for e in case.get("events").and_then(|v| v.as_arr()).unwrap_or(&[]) {
        if let Some(p) = e.get("push") {
            let mut peers = Peers::new();
            for item in p.as_arr().unwrap_or(&[]) {
                let t = item.as_str().unwrap_or("");
                if let Some((n, a)) = t.split_once('@') {
                    let n: NodeId = n.parse().unwrap_or(1);
                    let variant = if a.starts_with("10.0.0.2:") { 2 } else { 1 };
                    peers.insert(n, variant);
                }
            }
            snaps.push(peers);
            seq.push(snaps.len() - 1);
            events.push(Ev::Push(snaps.len() - 1));
        } else {
            events.push(match e.as_str() {
                Some("watcher-runs") => Ev::Watcher,
                Some("subscribe") => Ev::Subscribe,
                _ => Ev::Read,
            });
        }
    }
    if seq.is_empty() {
        return 2;
    }
    let out = crate::c13::block_on(execute(&snaps, &events));
    println!("{out:#?}");
    let mut st = Stats::default();
    judge(&snaps, &seq, &events, &out, &mut st);
    for f in &st.found {
        println!("{}: {}", f.key, f.what);
    }
    (!st.found.is_empty()) as i32
}
