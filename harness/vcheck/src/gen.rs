//! State generators shared by C03, C05, C08 and C19: exhaustive enumeration of the replica
//! states (real `OrSWotSet<2>` values) that satisfy the two halves of the C03 precondition.
//!
//! * **P1, gap-free prefixes.** A global history gives every origin an ascending list of
//!   operations (gaps below *and* above one hour). A replica state is what results from
//!   applying, in any cross-origin interleaving and through any sources, a prefix of every
//!   origin's list.
//! * **P2, inside one forgiveness period.** Every set reachable from the empty set by at
//!   most `depth` insert/delete steps over a pool whose stamps all lie within 50 minutes,
//!   in any order, through any source, duplicates included.

use std::collections::{BTreeMap, HashMap, VecDeque};

use datacake_crdt::verif::VerifSnapshot;
use datacake_crdt::OrSWotSet;

use crate::crdt::*;

pub type Set2 = OrSWotSet<2>;

pub const KEYS: [u64; 2] = [1, 2];

/// How a state was built (so that a counterexample can be rebuilt from scratch).
#[derive(Clone, Debug)]
pub enum Prov {
    Ops(Vec<(Op, usize)>),
    Merge(Box<Prov>, Box<Prov>),
    /// `purge_old_deletes` called after building the inner state.
    Purged(Box<Prov>),
}

impl Prov {
    pub fn len(&self) -> usize {
        match self {
            Prov::Ops(v) => v.len(),
            Prov::Merge(a, b) => a.len() + b.len(),
            Prov::Purged(a) => a.len(),
        }
    }
    pub fn push(&mut self, op: Op, src: usize) {
        if let Prov::Ops(v) = self {
            v.push((op, src));
        }
    }
    pub fn to_json(&self) -> vkit::J {
        match self {
            Prov::Ops(v) => vkit::J::Arr(
                v.iter()
                    .map(|(op, src)| op.to_json().set("src", *src))
                    .collect(),
            ),
            Prov::Merge(a, b) => vkit::J::obj()
                .set("merge_into", a.to_json())
                .set("merge_from", b.to_json()),
            Prov::Purged(a) => vkit::J::obj().set("purge_after", a.to_json()),
        }
    }
    pub fn rebuild(j: &vkit::J) -> Option<Set2> {
        if let Some(items) = j.as_arr() {
            let mut s = Set2::default();
            for j in items {
                let op = Op::from_json(j)?;
                let src = j.get("src")?.as_u64()? as usize;
                apply(&mut s, src, op);
            }
            return Some(s);
        }
        if let Some(inner) = j.get("purge_after") {
            let mut s = Prov::rebuild(inner)?;
            s.purge_old_deletes();
            return Some(s);
        }
        let mut a = Prov::rebuild(j.get("merge_into")?)?;
        let b = Prov::rebuild(j.get("merge_from")?)?;
        a.merge(b);
        Some(a)
    }
}

#[derive(Clone)]
pub struct Labeled {
    /// Provenance: the operation list (or merge tree) that built the state.
    pub built_by: Prov,
    /// For P1: how many operations of each origin's list were applied.
    pub prefix: Vec<usize>,
    pub set: Set2,
    pub snap: VerifSnapshot,
}

pub type History = Vec<Vec<Op>>;

/// Histories used for P1. Origins are node ids 1, 2 (and 3 in the last one).
pub fn p1_histories(thorough: bool) -> Vec<(&'static str, History)> {
    let a = 1u8;
    let b = 2u8;
    let c = 3u8;
    let mut v: Vec<(&'static str, History)> = vec![
        (
            "put-put-delete with a >1h gap, two origins on both keys",
            vec![
                vec![
                    Op::ins(1, ts_min(0, 0, a)),
                    Op::ins(2, ts_min(10, 0, a)),
                    Op::del(1, ts_min(130, 0, a)),
                ],
                vec![
                    Op::ins(2, ts_min(5, 0, b)),
                    Op::del(2, ts_min(50, 0, b)),
                    Op::ins(1, ts_min(140, 0, b)),
                ],
            ],
        ),
        (
            "delete first, re-insert later; same-instant writes from two nodes",
            vec![
                vec![
                    Op::del(1, ts_min(0, 0, a)),
                    Op::ins(1, ts_min(20, 0, a)),
                    Op::ins(2, ts_min(70, 0, a)),
                ],
                vec![
                    Op::ins(1, ts_min(20, 0, b)),
                    Op::del(2, ts_min(70, 0, b)),
                    Op::del(1, ts_min(200, 0, b)),
                ],
            ],
        ),
        (
            "tombstones followed by two operations more than 1h later (purgeable)",
            vec![
                vec![
                    Op::ins(1, ts_min(0, 0, a)),
                    Op::del(1, ts_min(5, 0, a)),
                    Op::ins(2, ts_min(90, 0, a)),
                    Op::ins(2, ts_min(95, 0, a)),
                ],
                vec![
                    Op::del(2, ts_min(20, 0, b)),
                    Op::ins(1, ts_min(100, 0, b)),
                    Op::ins(1, ts_min(110, 0, b)),
                ],
            ],
        ),
    ];
    if thorough {
        v.push((
            "three origins, counter-only ties, long tail",
            vec![
                vec![
                    Op::ins(1, ts_min(0, 0, a)),
                    Op::del(1, ts_min(0, 1, a)),
                    Op::ins(2, ts_min(90, 0, a)),
                ],
                vec![
                    Op::ins(1, ts_min(0, 0, b)),
                    Op::ins(2, ts_min(30, 0, b)),
                    Op::del(2, ts_min(100, 0, b)),
                ],
                vec![Op::del(2, ts_min(95, 0, c)), Op::ins(1, ts_min(300, 0, c))],
            ],
        ));
        v.push((
            "four operations per origin, alternating keys",
            vec![
                vec![
                    Op::ins(1, ts_min(0, 0, a)),
                    Op::ins(2, ts_min(40, 0, a)),
                    Op::del(1, ts_min(80, 0, a)),
                    Op::del(2, ts_min(160, 0, a)),
                ],
                vec![
                    Op::del(2, ts_min(20, 0, b)),
                    Op::ins(1, ts_min(60, 0, b)),
                    Op::ins(2, ts_min(100, 0, b)),
                    Op::del(1, ts_min(170, 0, b)),
                ],
            ],
        ));
    }
    v
}

/// All replica states reachable by interleaving prefixes of `history` through 2 sources.
pub fn p1_states(history: &History) -> Vec<Labeled> {
    let n = history.len();
    let mut seen: HashMap<(Vec<usize>, VerifSnapshot), ()> = HashMap::new();
    let mut out = Vec::new();
    let mut queue = VecDeque::new();
    let start = Labeled {
        built_by: Prov::Ops(vec![]),
        prefix: vec![0; n],
        set: Set2::default(),
        snap: Set2::default().verif_snapshot(),
    };
    seen.insert((start.prefix.clone(), start.snap.clone()), ());
    queue.push_back(start);
    while let Some(cur) = queue.pop_front() {
        for o in 0..n {
            if cur.prefix[o] >= history[o].len() {
                continue;
            }
            let op = history[o][cur.prefix[o]];
            for src in 0..2 {
                let mut set = cur.set.clone();
                apply(&mut set, src, op);
                let snap = set.verif_snapshot();
                let mut prefix = cur.prefix.clone();
                prefix[o] += 1;
                if seen.insert((prefix.clone(), snap.clone()), ()).is_none() {
                    let mut built_by = cur.built_by.clone();
                    built_by.push(op, src);
                    queue.push_back(Labeled {
                        built_by,
                        prefix,
                        set,
                        snap,
                    });
                }
            }
        }
        out.push(cur);
    }
    out
}

/// The operations a P1-labelled state has applied.
pub fn p1_ops<'a>(history: &'a History, prefix: &[usize]) -> Vec<&'a Op> {
    history
        .iter()
        .zip(prefix)
        .flat_map(|(h, &n)| h[..n].iter())
        .collect()
}

/// The P2 pool: 8 operations, two origins, both keys, all within 50 minutes.
pub fn p2_pool() -> Vec<Op> {
    let a = 1u8;
    let b = 2u8;
    vec![
        Op::ins(1, ts_min(0, 0, a)),
        Op::ins(2, ts_min(5, 0, b)),
        Op::del(1, ts_min(10, 0, b)),
        Op::ins(2, ts_min(15, 0, a)),
        Op::ins(1, ts_min(20, 0, a)),
        Op::del(2, ts_min(20, 0, b)),
        Op::del(1, ts_min(40, 1, a)),
        Op::ins(1, ts_min(40, 1, b)), // same instant as the delete above, larger node id
    ]
}

/// Every set reachable by at most `depth` steps over `pool` (breadth-first, deduplicated
/// by full snapshot — the snapshot is the whole state of the set, so merging is sound).
pub fn p2_states(pool: &[Op], depth: usize) -> Vec<Labeled> {
    let mut seen: HashMap<VerifSnapshot, ()> = HashMap::new();
    let mut out = Vec::new();
    let mut queue = VecDeque::new();
    let start = Labeled {
        built_by: Prov::Ops(vec![]),
        prefix: vec![],
        set: Set2::default(),
        snap: Set2::default().verif_snapshot(),
    };
    seen.insert(start.snap.clone(), ());
    queue.push_back(start);
    while let Some(cur) = queue.pop_front() {
        if cur.built_by.len() < depth {
            for &op in pool {
                for src in 0..2 {
                    let mut set = cur.set.clone();
                    apply(&mut set, src, op);
                    let snap = set.verif_snapshot();
                    if seen.insert(snap.clone(), ()).is_none() {
                        let mut built_by = cur.built_by.clone();
                        built_by.push(op, src);
                        queue.push_back(Labeled {
                            built_by,
                            prefix: vec![],
                            set,
                            snap,
                        });
                    }
                }
            }
        }
        out.push(cur);
    }
    out
}

/// Reference join of two replica views: per key the newer of what either side holds
/// (insert wins an exact tie). Valid whenever neither side has purged or refused
/// anything, which the P1/P2 generators guarantee.
pub fn reference_join(a: &VerifSnapshot, b: &VerifSnapshot, keys: &[u64]) -> Vec<KeyView> {
    keys.iter()
        .map(|&k| {
            let va = key_view(a, k);
            let vb = key_view(b, k);
            join_views(va, vb)
        })
        .collect()
}

pub fn join_views(a: KeyView, b: KeyView) -> KeyView {
    fn rank(v: &KeyView) -> Option<(datacake_crdt::HLCTimestamp, u8)> {
        match v {
            KeyView::Absent => None,
            KeyView::Dead(t) => Some((*t, 0)),
            KeyView::Live(t) => Some((*t, 1)),
        }
    }
    if rank(&a) >= rank(&b) {
        a
    } else {
        b
    }
}

pub fn views_live(views: &[KeyView]) -> Vec<Option<datacake_crdt::HLCTimestamp>> {
    views
        .iter()
        .map(|v| match v {
            KeyView::Live(t) => Some(*t),
            _ => None,
        })
        .collect()
}

/// Per-class state counts for evidence.
pub fn count_by<T: Ord>(items: impl Iterator<Item = T>) -> BTreeMap<T, u64> {
    let mut m = BTreeMap::new();
    for i in items {
        *m.entry(i).or_insert(0) += 1;
    }
    m
}
