//! C17 — every bundled storage backend behaves like the reference key-value model.
//!
//! Engine E1 (refinement against a `BTreeMap` model): breadth-first search over the
//! *model's* state graph. For every transition (a storage call, or a close-and-reopen of a
//! persistent backend) the backend is rebuilt on a fresh instance by replaying the
//! shortest call path to the source state, the call is applied, and the full read surface
//! (get and multi_get for every id x keyspace, iter_metadata per keyspace, the keyspace
//! list; for SQLite also the raw rows) is compared with the model.
//!
//! Merging by model state is sound because the read surface exposes each backend's whole
//! persistent state for the ids of the alphabet, and every state on a replayed path has
//! already been verified to match its model state.

use std::collections::{BTreeMap, BTreeSet, HashMap};
use std::future::Future;
use std::path::PathBuf;
use std::sync::atomic::{AtomicU64, Ordering};
use std::time::Duration;

use datacake_crdt::HLCTimestamp;
use datacake_eventual_consistency::test_utils::MemStore;
use datacake_eventual_consistency::{Document, DocumentMetadata, Storage};
use datacake_lmdb::LmdbStorage;
use datacake_sqlite::SqliteStorage;
use vkit::{par, Report, Stats, Tier, J};

const KEYSPACES: [&str; 2] = ["a", "b"];
const BIG_ID: u64 = (1u64 << 63) + 1; // above i64::MAX (sign conversions); sorts BEFORE 2 in little-endian byte order
/// The state-graph search uses the first two ids; the subset-purge block uses all four
/// (numerically BIG_ID-as-i64 < 2 < 5 < 9 in SQLite, 2 < 5 < 9 < BIG_ID elsewhere).
const IDS: [u64; 4] = [2, BIG_ID, 0, 9];

fn stamp(i: u8) -> HLCTimestamp {
    // t1 < t2 < t3, distinct in seconds, fractional, counter and node
    match i {
        0 => HLCTimestamp::new(Duration::from_millis(1_000_000_004), 0, 1),
        1 => HLCTimestamp::new(Duration::from_millis(1_000_000_996), 65535, 2),
        _ => HLCTimestamp::new(Duration::from_secs((1 << 32) - 1), 7, 255),
    }
}

fn payload(i: u8) -> Vec<u8> {
    match i {
        0 => Vec::new(),
        1 => b"x".to_vec(),
        _ => (0..65536u32).map(|b| (b % 251) as u8).collect(),
    }
}

#[derive(Clone, Debug, PartialEq, Eq, Hash, PartialOrd, Ord)]
enum Call {
    Put { ks: u8, id: u8, pay: u8, ts: u8 },
    MultiPut { ks: u8, docs: Vec<(u8, u8, u8)> },
    Tomb { ks: u8, id: u8, ts: u8 },
    MultiTomb { ks: u8, docs: Vec<(u8, u8)> },
    RemoveTombs { ks: u8, ids: Vec<u8> },
    Reopen,
}

impl Call {
    fn to_json(&self) -> J {
        let pairs = |v: &Vec<(u8, u8)>| J::Arr(v.iter().map(|(a, b)| J::from(vec![*a, *b])).collect());
        match self {
            Call::Put { ks, id, pay, ts } => J::obj().set("call", "put").set("ks", *ks).set("id", *id).set("payload", *pay).set("ts", *ts),
            Call::MultiPut { ks, docs } => J::obj().set("call", "multi_put").set("ks", *ks).set(
                "docs",
                J::Arr(docs.iter().map(|(a, b, c)| J::from(vec![*a, *b, *c])).collect()),
            ),
            Call::Tomb { ks, id, ts } => J::obj().set("call", "mark_as_tombstone").set("ks", *ks).set("id", *id).set("ts", *ts),
            Call::MultiTomb { ks, docs } => J::obj().set("call", "mark_many_as_tombstone").set("ks", *ks).set("docs", pairs(docs)),
            Call::RemoveTombs { ks, ids } => J::obj().set("call", "remove_tombstones").set("ks", *ks).set("ids", ids.clone()),
            Call::Reopen => J::obj().set("call", "reopen"),
        }
    }
    fn from_json(j: &J) -> Option<Call> {
        let n = |k: &str| j.get(k).and_then(|v| v.as_u64()).map(|v| v as u8);
        let list = |k: &str| -> Option<Vec<Vec<u8>>> {
            Some(
                j.get(k)?
                    .as_arr()?
                    .iter()
                    .map(|e| e.as_arr().unwrap_or(&[]).iter().filter_map(|x| x.as_u64().map(|v| v as u8)).collect())
                    .collect(),
            )
        };
        Some(match j.get("call")?.as_str()? {
            "put" => Call::Put { ks: n("ks")?, id: n("id")?, pay: n("payload")?, ts: n("ts")? },
            "multi_put" => Call::MultiPut { ks: n("ks")?, docs: list("docs")?.into_iter().map(|d| (d[0], d[1], d[2])).collect() },
            "mark_as_tombstone" => Call::Tomb { ks: n("ks")?, id: n("id")?, ts: n("ts")? },
            "mark_many_as_tombstone" => Call::MultiTomb { ks: n("ks")?, docs: list("docs")?.into_iter().map(|d| (d[0], d[1])).collect() },
            "remove_tombstones" => Call::RemoveTombs {
                ks: n("ks")?,
                ids: j.get("ids")?.as_arr()?.iter().filter_map(|x| x.as_u64().map(|v| v as u8)).collect(),
            },
            "reopen" => Call::Reopen,
            _ => return None,
        })
    }
}

/// keyspace -> id -> (stamp index, Some(payload index) | None = tombstone)
type Slots = BTreeMap<(u8, u8), (u8, Option<u8>)>;

#[derive(Clone, Debug, PartialEq, Eq, Hash, PartialOrd, Ord, Default)]
struct Model {
    slots: Slots,
    /// Keyspaces the *current handle* has touched (persistent backends with per-handle
    /// caches only; always empty otherwise so it does not split states).
    warm: BTreeSet<u8>,
}

impl Model {
    fn apply(&mut self, call: &Call, track_warm: bool) {
        let touch = |m: &mut Model, ks: u8| {
            if track_warm {
                m.warm.insert(ks);
            }
        };
        match call {
            Call::Put { ks, id, pay, ts } => {
                self.slots.insert((*ks, *id), (*ts, Some(*pay)));
                touch(self, *ks);
            },
            Call::MultiPut { ks, docs } => {
                for (id, pay, ts) in docs {
                    self.slots.insert((*ks, *id), (*ts, Some(*pay)));
                }
                touch(self, *ks);
            },
            Call::Tomb { ks, id, ts } => {
                self.slots.insert((*ks, *id), (*ts, None));
                touch(self, *ks);
            },
            Call::MultiTomb { ks, docs } => {
                for (id, ts) in docs {
                    self.slots.insert((*ks, *id), (*ts, None));
                }
                touch(self, *ks);
            },
            Call::RemoveTombs { ks, ids } => {
                for id in ids {
                    self.slots.remove(&(*ks, *id));
                }
                touch(self, *ks);
            },
            Call::Reopen => self.warm.clear(),
        }
    }
}

struct Alphabet {
    payloads: Vec<u8>,
    stamps: Vec<u8>,
    reopen: bool,
}

fn calls_from(model: &Model, al: &Alphabet) -> Vec<Call> {
    let mut out = Vec::new();
    for ks in 0..2u8 {
        for id in 0..2u8 {
            for &ts in &al.stamps {
                for &pay in &al.payloads {
                    out.push(Call::Put { ks, id, pay, ts });
                }
                out.push(Call::Tomb { ks, id, ts });
            }
        }
        let (s0, s1) = (al.stamps[0], *al.stamps.last().unwrap());
        let (p0, p1) = (al.payloads[0], *al.payloads.last().unwrap());
        // two different ids, in both stamp orders
        out.push(Call::MultiPut { ks, docs: vec![(0, p1, s0), (1, p0, s1)] });
        out.push(Call::MultiPut { ks, docs: vec![(1, p1, s1), (0, p0, s0)] });
        // the same id twice: the later element of the batch must win
        out.push(Call::MultiPut { ks, docs: vec![(0, p0, s1), (0, p1, s0)] });
        out.push(Call::MultiTomb { ks, docs: vec![(0, s0), (1, s1)] });
        out.push(Call::MultiTomb { ks, docs: vec![(1, s0)] });
        // remove_tombstones: only ids that ARE tombstones (the contract)
        let tombs: Vec<u8> = (0..2u8)
            .filter(|id| matches!(model.slots.get(&(ks, *id)), Some((_, None))))
            .collect();
        for id in &tombs {
            out.push(Call::RemoveTombs { ks, ids: vec![*id] });
        }
        if tombs.len() == 2 {
            out.push(Call::RemoveTombs { ks, ids: tombs.clone() });
        }
        out.push(Call::RemoveTombs { ks, ids: vec![] });
    }
    if al.reopen {
        out.push(Call::Reopen);
    }
    out
}

// ------------------------------------------------------------------ backends

static DIR_COUNTER: AtomicU64 = AtomicU64::new(0);

fn fresh_dir(tag: &str) -> PathBuf {
    let n = DIR_COUNTER.fetch_add(1, Ordering::Relaxed);
    let base = vkit::scratch_base();
    let p = base.join(format!("verif-c17-{}-{tag}-{n}", std::process::id()));
    let _ = std::fs::remove_dir_all(&p);
    std::fs::create_dir_all(&p).expect("create scratch dir");
    p
}

pub trait Backend: Sized {
    type S: Storage;
    const NAME: &'static str;
    const PERSISTENT: bool;
    const PER_HANDLE_CACHE: bool;
    /// Upper bound on parallel workers (see `par::par_map_capped`).
    const WORKERS: usize = 5;
    fn open() -> impl Future<Output = Self>;
    fn reopen(self) -> impl Future<Output = Self>;
    fn storage(&self) -> &Self::S;
    /// Backend-specific look behind the read surface (raw rows), if available.
    fn raw_rows(&self) -> impl Future<Output = Option<Vec<(String, u64, String, Option<Vec<u8>>)>>> {
        async { None }
    }
    fn cleanup(self) -> impl Future<Output = ()> {
        async {}
    }
}

pub struct MemBackend(MemStore);
impl Backend for MemBackend {
    type S = MemStore;
    const NAME: &'static str = "MemStore";
    const PERSISTENT: bool = false;
    const PER_HANDLE_CACHE: bool = false;
    const WORKERS: usize = usize::MAX;
    async fn open() -> Self {
        MemBackend(MemStore::default())
    }
    async fn reopen(self) -> Self {
        self
    }
    fn storage(&self) -> &MemStore {
        &self.0
    }
}

pub struct SqliteMem(SqliteStorage);
impl Backend for SqliteMem {
    type S = SqliteStorage;
    const NAME: &'static str = "SQLite (in memory)";
    const PERSISTENT: bool = false;
    const PER_HANDLE_CACHE: bool = false;
    async fn open() -> Self {
        SqliteMem(SqliteStorage::open_in_memory().await.expect("open sqlite memory"))
    }
    async fn reopen(self) -> Self {
        self
    }
    fn storage(&self) -> &SqliteStorage {
        &self.0
    }
    async fn raw_rows(&self) -> Option<Vec<(String, u64, String, Option<Vec<u8>>)>> {
        sqlite_rows(&self.0).await
    }
}

async fn sqlite_rows(s: &SqliteStorage) -> Option<Vec<(String, u64, String, Option<Vec<u8>>)>> {
    let rows = s
        .handle()
        .fetch_all::<_, (String, i64, String, Option<Vec<u8>>)>(
            "SELECT keyspace, doc_id, ts, data FROM state_entries ORDER BY keyspace, doc_id",
            (),
        )
        .await
        .ok()?;
    Some(rows.into_iter().map(|(k, id, ts, d)| (k, id as u64, ts, d)).collect())
}

pub struct SqliteFile(Option<SqliteStorage>, PathBuf);
impl Backend for SqliteFile {
    type S = SqliteStorage;
    const NAME: &'static str = "SQLite (file)";
    const PERSISTENT: bool = true;
    const PER_HANDLE_CACHE: bool = false;
    async fn open() -> Self {
        let dir = fresh_dir("sqlite");
        let s = SqliteStorage::open(dir.join("db.sqlite")).await.expect("open sqlite file");
        SqliteFile(Some(s), dir)
    }
    async fn reopen(mut self) -> Self {
        drop(self.0.take());
        let s = SqliteStorage::open(self.1.join("db.sqlite")).await.expect("reopen sqlite file");
        self.0 = Some(s);
        self
    }
    fn storage(&self) -> &SqliteStorage {
        self.0.as_ref().unwrap()
    }
    async fn raw_rows(&self) -> Option<Vec<(String, u64, String, Option<Vec<u8>>)>> {
        sqlite_rows(self.storage()).await
    }
    async fn cleanup(mut self) {
        drop(self.0.take());
        let _ = std::fs::remove_dir_all(&self.1);
    }
}

pub struct Lmdb(Option<LmdbStorage>, PathBuf);
impl Lmdb {
    async fn close(&mut self) {
        if let Some(s) = self.0.take() {
            // heed caches opened environments globally; a real close needs every clone to be
            // gone. LMDB binds a reader slot to the database's worker thread and releases it in
            // a thread-exit destructor that touches the environment's lock table: closing the
            // environment while that thread is still exiting crashed the checker (SIGSEGV in
            // mdb_env_reader_dest, once in a few thorough runs). So: drop the handle, wait
            // for the worker thread to be gone (hook datacake_lmdb::verif::join_worker), and
            // only then give up the last references.
            let env = s.handle().env().clone();
            drop(s);
            tokio::task::spawn_blocking(move || {
                datacake_lmdb::verif::join_worker(env.path());
                env.prepare_for_closing().wait()
            })
            .await
            .expect("wait for lmdb close");
        }
    }
}
impl Backend for Lmdb {
    type S = LmdbStorage;
    const NAME: &'static str = "LMDB";
    const PERSISTENT: bool = true;
    const PER_HANDLE_CACHE: bool = true;
    async fn open() -> Self {
        let dir = fresh_dir("lmdb");
        let s = LmdbStorage::open(&dir).await.expect("open lmdb");
        Lmdb(Some(s), dir)
    }
    async fn reopen(mut self) -> Self {
        self.close().await;
        let s = LmdbStorage::open(&self.1).await.expect("reopen lmdb");
        self.0 = Some(s);
        self
    }
    fn storage(&self) -> &LmdbStorage {
        self.0.as_ref().unwrap()
    }
    async fn cleanup(mut self) {
        self.close().await;
        let _ = std::fs::remove_dir_all(&self.1);
    }
}

// ------------------------------------------------------------------ driving and observing

async fn apply_call<B: Backend>(b: B, call: &Call) -> Result<B, String> {
    let doc = |id: u8, pay: u8, ts: u8| Document::new(IDS[id as usize], stamp(ts), payload(pay));
    let e = |e: &dyn std::fmt::Display| e.to_string();
    match call {
        Call::Put { ks, id, pay, ts } => b
            .storage()
            .put(KEYSPACES[*ks as usize], doc(*id, *pay, *ts))
            .await
            .map_err(|x| e(&x))?,
        Call::MultiPut { ks, docs } => {
            let docs: Vec<Document> = docs.iter().map(|(i, p, t)| doc(*i, *p, *t)).collect();
            b.storage()
                .multi_put(KEYSPACES[*ks as usize], docs.into_iter())
                .await
                .map_err(|x| e(&x))?
        },
        Call::Tomb { ks, id, ts } => b
            .storage()
            .mark_as_tombstone(KEYSPACES[*ks as usize], IDS[*id as usize], stamp(*ts))
            .await
            .map_err(|x| e(&x))?,
        Call::MultiTomb { ks, docs } => {
            let docs: Vec<DocumentMetadata> = docs
                .iter()
                .map(|(i, t)| DocumentMetadata::new(IDS[*i as usize], stamp(*t)))
                .collect();
            b.storage()
                .mark_many_as_tombstone(KEYSPACES[*ks as usize], docs.into_iter())
                .await
                .map_err(|x| e(&x))?
        },
        Call::RemoveTombs { ks, ids } => {
            let ids: Vec<u64> = ids.iter().map(|i| IDS[*i as usize]).collect();
            b.storage()
                .remove_tombstones(KEYSPACES[*ks as usize], ids.into_iter())
                .await
                .map_err(|x| e(&x))?
        },
        Call::Reopen => return Ok(b.reopen().await),
    }
    Ok(b)
}

/// Compares the backend's whole read surface with the model. Returns (clause, text).

/// Keyspace list: every keyspace holding a row is listed; nothing outside the alphabet.
/// Asked at several moments of an observation (before any other read, between the reads
/// of the keyspaces, at the end), because a handle may answer from what it has touched so
/// far — after a reopen that differs from what the database holds.
async fn check_keyspace_list<S: Storage>(s: &S, model: &Model, moment: &'static str, bad: &mut Vec<(&'static str, String)>)
where
    S::Error: std::fmt::Display,
{
    match s.get_keyspace_list().await {
        Err(e) => bad.push(("keyspace-list-error", format!("get_keyspace_list failed ({moment}): {e}"))),
        Ok(list) => {
            let listed: BTreeSet<String> = list.iter().cloned().collect();
            if listed.len() != list.len() {
                bad.push(("keyspace-list-duplicates", format!("keyspace list has duplicates ({moment}): {list:?}")));
            }
            for (ki, ks) in KEYSPACES.iter().enumerate() {
                let has_rows = model.slots.keys().any(|(k, _)| *k == ki as u8);
                if has_rows && !listed.contains(*ks) {
                    bad.push((
                        "keyspace-with-rows-not-listed",
                        format!("keyspace {ks} holds rows but get_keyspace_list ({moment}) returned {list:?}"),
                    ));
                }
            }
            for l in &listed {
                if !KEYSPACES.contains(&l.as_str()) {
                    bad.push(("unknown-keyspace-listed", format!("keyspace list ({moment}) contains {l:?}")));
                }
            }
        },
    }
}

async fn observe<B: Backend>(b: &B, model: &Model) -> Vec<(&'static str, String)> {
    let mut bad = Vec::new();
    let s = b.storage();
    check_keyspace_list(s, model, "before any other read", &mut bad).await;
    for (ki, ks) in KEYSPACES.iter().enumerate() {
        if ki > 0 {
            check_keyspace_list(s, model, "between the reads of two keyspaces", &mut bad).await;
        }
        let ki = ki as u8;
        // get
        for (ii, id) in IDS.iter().enumerate() {
            let want = match model.slots.get(&(ki, ii as u8)) {
                Some((ts, Some(pay))) => Some((*id, stamp(*ts), payload(*pay))),
                _ => None,
            };
            match s.get(ks, *id).await {
                Err(e) => bad.push(("get-error", format!("get({ks},{id}) failed: {e}"))),
                Ok(got) => {
                    let got = got.map(|d| (d.id(), d.last_updated(), d.data().to_vec()));
                    if got != want {
                        bad.push((
                            "get-differs",
                            format!(
                                "get({ks},{id}) = {:?}, model {:?}",
                                got.as_ref().map(|(i, t, d)| (i, t.to_string(), d.len())),
                                want.as_ref().map(|(i, t, d)| (i, t.to_string(), d.len()))
                            ),
                        ));
                    }
                },
            }
        }
        // multi_get: both orders of the whole universe plus an id that never exists, every
        // non-empty subset of the universe (a document that was *not* asked for must not come
        // back), and request lists of exactly 8 and of 9 ids (batched lookups)
        let mut requests: Vec<Vec<u64>> = vec![vec![IDS[0], IDS[1], 99, IDS[2], IDS[3]], vec![IDS[3], 99, IDS[1], IDS[0], IDS[2]]];
        for mask in 1u8..15 {
            let mut r: Vec<u64> = IDS.iter().enumerate().filter(|(i, _)| mask & (1 << i) != 0).map(|(_, id)| *id).collect();
            if mask % 2 == 1 {
                r.reverse();
            }
            if mask % 3 == 0 {
                r.push(99);
            }
            requests.push(r);
        }
        requests.push(vec![90, IDS[1], 91, 92, IDS[3], 93, 94, IDS[0]]);
        requests.push(vec![90, IDS[1], 91, 92, IDS[3], 93, 94, 95, IDS[0]]);
        for order in requests {
            let mut want: Vec<(u64, HLCTimestamp, Vec<u8>)> = IDS
                .iter()
                .enumerate()
                .filter(|(_, id)| order.contains(id))
                .filter_map(|(ii, id)| match model.slots.get(&(ki, ii as u8)) {
                    Some((ts, Some(pay))) => Some((*id, stamp(*ts), payload(*pay))),
                    _ => None,
                })
                .collect();
            want.sort();
            match s.multi_get(ks, order.clone().into_iter()).await {
                Err(e) => bad.push(("multi-get-error", format!("multi_get({ks},{order:?}) failed: {e}"))),
                Ok(docs) => {
                    let mut got: Vec<_> = docs.map(|d| (d.id(), d.last_updated(), d.data().to_vec())).collect();
                    got.sort();
                    if got != want {
                        bad.push((
                            "multi-get-differs",
                            format!(
                                "multi_get({ks},{order:?}) returned ids {:?}, model {:?}",
                                got.iter().map(|d| d.0).collect::<Vec<_>>(),
                                want.iter().map(|d| d.0).collect::<Vec<_>>()
                            ),
                        ));
                    }
                },
            }
        }
        // iter_metadata
        let mut want: Vec<(u64, HLCTimestamp, bool)> = IDS
            .iter()
            .enumerate()
            .filter_map(|(ii, id)| {
                model
                    .slots
                    .get(&(ki, ii as u8))
                    .map(|(ts, pay)| (*id, stamp(*ts), pay.is_none()))
            })
            .collect();
        want.sort();
        match s.iter_metadata(ks).await {
            Err(e) => bad.push(("iter-metadata-error", format!("iter_metadata({ks}) failed: {e}"))),
            Ok(it) => {
                let mut got: Vec<_> = it.collect();
                got.sort();
                if got != want {
                    let f = |v: &Vec<(u64, HLCTimestamp, bool)>| {
                        v.iter().map(|(i, t, d)| format!("({i},{t},{d})")).collect::<Vec<_>>().join(" ")
                    };
                    bad.push((
                        "metadata-differs",
                        format!("iter_metadata({ks}) = [{}], model [{}]", f(&got), f(&want)),
                    ));
                }
            },
        }
    }
    check_keyspace_list(s, model, "after reading every keyspace", &mut bad).await;
    // raw rows (SQLite): exactly the model's rows
    if let Some(rows) = b.raw_rows().await {
        let mut want = Vec::new();
        for ((ki, ii), (ts, pay)) in &model.slots {
            want.push((
                KEYSPACES[*ki as usize].to_string(),
                IDS[*ii as usize] as i64 as u64,
                stamp(*ts).to_string(),
                pay.map(payload),
            ));
        }
        let mut got = rows;
        // ORDER BY doc_id sorts signed; compare as sets
        got.sort();
        want.sort();
        if got != want {
            bad.push((
                "raw-rows-differ",
                format!(
                    "table rows {:?} differ from model {:?}",
                    got.iter().map(|r| (&r.0, r.1, &r.2, r.3.as_ref().map(|d| d.len()))).collect::<Vec<_>>(),
                    want.iter().map(|r| (&r.0, r.1, &r.2, r.3.as_ref().map(|d| d.len()))).collect::<Vec<_>>()
                ),
            ));
        }
    }
    bad
}

fn path_json(backend: &str, path: &[Call], call: &Call) -> J {
    J::obj()
        .set("backend", backend)
        .set("path", J::Arr(path.iter().map(|c| c.to_json()).collect()))
        .set("call", call.to_json())
}

fn run_on_runtime<T>(f: impl Future<Output = T>) -> T {
    thread_local! {
        static RT: tokio::runtime::Runtime = tokio::runtime::Builder::new_current_thread()
            .enable_time()
            .max_blocking_threads(4)
            .build()
            .expect("runtime");
    }
    RT.with(|rt| rt.block_on(f))
}

/// One transition: rebuild by replaying `path`, apply `call`, observe against `expect`.
fn check_transition<B: Backend>(path: &[Call], call: &Call, expect: &Model, st: &mut Stats) -> bool {
    let outcome = vkit::quiet::catch(|| {
        run_on_runtime(async {
            let mut b = B::open().await;
            for c in path {
                b = match apply_call(b, c).await {
                    Ok(b) => b,
                    Err(e) => return vec![("call-error-on-verified-path", format!("replaying {c:?}: {e}"))],
                };
            }
            let (b, mut bad) = match apply_call(b, call).await {
                Ok(b) => (b, Vec::new()),
                Err(e) => {
                    // The call failed: report, and the state must be unchanged or fully applied;
                    // we cannot continue with a consumed backend.
                    return vec![("call-error", format!("{call:?} failed: {e}"))];
                },
            };
            bad.extend(observe(&b, expect).await);
            b.cleanup().await;
            bad
        })
    });
    st.inc("transitions");
    match outcome {
        Err(panic) => {
            st.violation(
                &format!("{}/panic", B::NAME),
                || format!("backend panicked: {panic}"),
                || path_json(B::NAME, path, call),
            );
            false
        },
        Ok(bad) => {
            let ok = bad.is_empty();
            for (clause, text) in bad {
                let shape = shape_of(call);
                st.violation(
                    &format!("{}/{clause}/{shape}", B::NAME),
                    || text.clone(),
                    || path_json(B::NAME, path, call),
                );
            }
            ok
        },
    }
}

fn shape_of(call: &Call) -> &'static str {
    match call {
        Call::Put { .. } => "after-put",
        Call::MultiPut { .. } => "after-multi-put",
        Call::Tomb { .. } => "after-tombstone",
        Call::MultiTomb { .. } => "after-multi-tombstone",
        Call::RemoveTombs { .. } => "after-remove-tombstones",
        Call::Reopen => "after-reopen",
    }
}

fn explore<B: Backend>(al: &Alphabet, max_depth: usize, max_states: usize) -> (Stats, bool) {
    let track_warm = B::PER_HANDLE_CACHE && al.reopen;
    // BFS over the model graph, level by level; transitions of a level are checked in parallel.
    let mut parent: HashMap<Model, Option<(Model, Call)>> = HashMap::new();
    let start = Model::default();
    parent.insert(start.clone(), None);
    let mut level = vec![start];
    let mut total = Stats::default();
    let mut capped = false;
    let mut depth = 0;
    let path_of = |parent: &HashMap<Model, Option<(Model, Call)>>, m: &Model| -> Vec<Call> {
        let mut p = Vec::new();
        let mut cur = m.clone();
        while let Some(Some((prev, c))) = parent.get(&cur) {
            p.push(c.clone());
            cur = prev.clone();
        }
        p.reverse();
        p
    };
    while !level.is_empty() && depth < max_depth {
        let mut work: Vec<(Vec<Call>, Call, Model, Model)> = Vec::new();
        for m in &level {
            let path = path_of(&parent, m);
            for call in calls_from(m, al) {
                if matches!(call, Call::Reopen) && !B::PERSISTENT {
                    continue;
                }
                let mut nm = m.clone();
                nm.apply(&call, track_warm);
                work.push((path.clone(), call, m.clone(), nm));
            }
        }
        if std::env::var("VERIF_PROGRESS").is_ok() {
            eprintln!("[C17] {} depth {depth}: {} states, {} transitions", B::NAME, level.len(), work.len());
        }
        let parts = par::par_map_capped(&work, B::WORKERS, |_, (path, call, _, expect)| {
            let mut st = Stats::default();
            let ok = check_transition::<B>(path, call, expect, &mut st);
            (st, ok)
        });
        // A state joins the frontier only through a transition that verified: states are
        // always rebuilt along verified paths, so one defect is reported where it first
        // shows instead of cascading into everything reachable from it.
        let mut next_level = Vec::new();
        for ((_, call, from, to), (st, ok)) in work.iter().zip(parts) {
            total.merge(st);
            if !ok {
                total.inc("transitions_not_verified");
                continue;
            }
            if !parent.contains_key(to) {
                if parent.len() >= max_states {
                    capped = true;
                    continue;
                }
                parent.insert(to.clone(), Some((from.clone(), call.clone())));
                next_level.push(to.clone());
            }
        }
        if let Some((path, call, _, _)) = work.get(work.len() / 2) {
            total.sample(|| path_json(B::NAME, path, call));
        }
        level = next_level;
        depth += 1;
    }
    if !level.is_empty() {
        capped = true; // depth bound reached with unexplored frontier
    }
    total.add("states", parent.len() as u64);
    (total, capped)
}

/// Purging a subset of the tombstones of a keyspace removes exactly that subset: every
/// assignment of four ids to {absent, live, tombstone} in keyspace a, and every non-empty
/// subset of its tombstones handed to remove_tombstones; keyspace b holds one tombstone
/// and one live row with the same ids which must stay. (The state-graph search has two ids,
/// which cannot tell "these ids" from "everything between the smallest and the largest".)
fn subset_purges<B: Backend>() -> Stats {
    let mut work: Vec<(Vec<Call>, Call, Model)> = Vec::new();
    for assign in 0..81u32 {
        let kind = |i: u32| (assign / 3u32.pow(i)) % 3; // 0 absent, 1 live, 2 tombstone
        let lives: Vec<(u8, u8, u8)> = (0..4).filter(|i| kind(*i) == 1).map(|i| (i as u8, 1, 0)).collect();
        let tombs: Vec<u8> = (0..4).filter(|i| kind(*i) == 2).map(|i| i as u8).collect();
        if tombs.is_empty() {
            continue;
        }
        let mut path = vec![
            Call::MultiTomb { ks: 1, docs: vec![(2, 0)] },
            Call::Put { ks: 1, id: 0, pay: 1, ts: 0 },
        ];
        if !lives.is_empty() {
            path.push(Call::MultiPut { ks: 0, docs: lives });
        }
        path.push(Call::MultiTomb { ks: 0, docs: tombs.iter().map(|i| (*i, 1)).collect() });
        for mask in 1..(1u32 << tombs.len()) {
            let ids: Vec<u8> = tombs.iter().enumerate().filter(|(n, _)| mask >> n & 1 == 1).map(|(_, i)| *i).collect();
            // both argument orders for the two-element and larger subsets
            let mut rev = ids.clone();
            rev.reverse();
            let mut m = Model::default();
            for c in &path {
                m.apply(c, false);
            }
            for ids in if rev != ids { vec![ids, rev] } else { vec![ids] } {
                let call = Call::RemoveTombs { ks: 0, ids };
                let mut nm = m.clone();
                nm.apply(&call, false);
                work.push((path.clone(), call, nm));
            }
        }
    }
    let parts = par::par_map_capped(&work, B::WORKERS, |_, (path, call, expect)| {
        let mut st = Stats::default();
        // the set-up first (reported on its own if it is what fails), then the purge
        let mut m = Model::default();
        for i in 0..path.len() {
            m.apply(&path[i], false);
            if i + 1 == path.len() && !check_transition::<B>(&path[..i], &path[i], &m, &mut st) {
                return st;
            }
        }
        check_transition::<B>(path, call, expect, &mut st);
        st.inc("subset_purges");
        st
    });
    let mut total = Stats::default();
    for st in parts {
        total.merge(st);
    }
    if let Some((path, call, _)) = work.get(work.len() / 2) {
        total.sample(|| path_json(B::NAME, path, call));
    }
    total
}

/// The blocks of a tier: (part name, label in the evidence, bounds text).
fn parts(tier: Tier) -> Vec<(&'static str, &'static str, &'static str)> {
    if tier.is_thorough() {
        vec![
            ("mem", "MemStore", "full alphabet, closure"),
            ("sqlmem", "SQLite memory", "reduced alphabet (2 payloads, 2 stamps), closure"),
            ("sqlmem-large", "SQLite memory (64 KiB payloads, top-second stamps)", "full alphabet, depth 2"),
            ("sqlfile", "SQLite file", "tiny alphabet (1 payload, 2 stamps) + reopen, closure"),
            ("lmdb", "LMDB", "tiny alphabet + reopen, closure (state includes the handle's warm keyspaces)"),
            ("lmdb-large", "LMDB (64 KiB payloads)", "full alphabet + reopen, depth 2"),
        ]
    } else {
        vec![
            ("mem", "MemStore", "reduced alphabet, closure"),
            ("sqlmem", "SQLite memory", "tiny alphabet, depth 2 (the file-backed block runs the same statements deeper; closure in thorough)"),
            ("sqlmem-large", "SQLite memory (64 KiB payloads, top-second stamps)", "full alphabet, depth 1"),
            ("sqlfile", "SQLite file", "tiny alphabet + reopen, depth 3"),
            ("lmdb", "LMDB", "tiny alphabet + reopen, depth 3"),
        ]
    }
}

const PURGE_PARTS: [&str; 4] = ["purge-mem", "purge-sqlmem", "purge-sqlfile", "purge-lmdb"];

/// One block, by name. Runs in a process of its own (see `run`).
fn run_part(name: &str, tier: Tier) -> Option<(Stats, bool)> {
    let reduced = Alphabet { payloads: vec![0, 1], stamps: vec![0, 1], reopen: true };
    let full = Alphabet { payloads: vec![0, 1, 2], stamps: vec![0, 1, 2], reopen: true };
    let tiny = Alphabet { payloads: vec![1], stamps: vec![0, 2], reopen: true };
    let th = tier.is_thorough();
    Some(match name {
        "mem" => explore::<MemBackend>(if th { &full } else { &reduced }, 64, 1_000_000),
        "sqlmem" => explore::<SqliteMem>(if th { &reduced } else { &tiny }, if th { 64 } else { 2 }, 1_000_000),
        "sqlmem-large" => explore::<SqliteMem>(&full, if th { 2 } else { 1 }, 1_000_000),
        "sqlfile" => explore::<SqliteFile>(&tiny, if th { 64 } else { 3 }, 1_000_000),
        "lmdb" => explore::<Lmdb>(&tiny, if th { 64 } else { 3 }, 1_000_000),
        "lmdb-large" => explore::<Lmdb>(&full, 2, 1_000_000),
        "purge-mem" => (subset_purges::<MemBackend>(), false),
        "purge-sqlmem" => (subset_purges::<SqliteMem>(), false),
        "purge-sqlfile" => (subset_purges::<SqliteFile>(), false),
        "purge-lmdb" => (subset_purges::<Lmdb>(), false),
        _ => return None,
    })
}

/// `vcheck --c17-part <name> <tier> <out file>`: one block in its own process.
pub fn part_worker(args: &[String]) -> i32 {
    let (Some(name), Some(tier), Some(out)) = (args.first(), args.get(1), args.get(2)) else { return 2 };
    let tier = if tier == "thorough" { Tier::Thorough } else { Tier::Quick };
    let Some((st, capped)) = run_part(name, tier) else { return 2 };
    let doc = J::obj().set("stats", st.to_json()).set("capped", capped);
    match std::fs::write(out, doc.to_string_compact()) {
        Ok(()) => 0,
        Err(_) => 2,
    }
}

pub fn run(tier: Tier) -> i32 {
    let mut report = Report::new("C17", tier, "model_checking");
    let mut total = Stats::default();
    let mut per_backend = Vec::new();
    let t0 = std::time::Instant::now();

    // Every block runs in a process of its own, all at once. The SQLite and LMDB backends
    // answer from a worker thread each, so a fresh backend per transition means creating and
    // waking an OS thread per transition; many workers doing that in one address space
    // contend on its lock (measured on this kind of VM: 1.6 ms per spawn alone, 10 ms with 16
    // workers). Separate processes do not share that lock; each gets a few workers.
    let blocks = parts(tier);
    let names: Vec<&str> = blocks.iter().map(|b| b.0).chain(PURGE_PARTS).collect();
    let exe = std::env::current_exe().expect("current_exe");
    let base = vkit::scratch_base();
    let tier_arg = if tier.is_thorough() { "thorough" } else { "quick" };
    let child_threads = (par::threads() / 3).max(2);
    let mut children = Vec::new();
    for name in &names {
        let out = base.join(format!("verif-c17-{}-{name}.json", std::process::id()));
        let _ = std::fs::remove_file(&out);
        let child = std::process::Command::new(&exe)
            .args(["--c17-part", name, tier_arg])
            .arg(&out)
            .env("VERIF_THREADS", child_threads.to_string())
            .stdout(std::process::Stdio::null())
            .spawn();
        children.push((name, out, child));
    }
    let mut results: Vec<Option<(Stats, bool)>> = Vec::new();
    for (name, out, child) in children {
        let status = child.and_then(|mut c| c.wait());
        let parsed = std::fs::read_to_string(&out).ok().and_then(|t| vkit::json::parse(&t).ok()).and_then(|doc| {
            Some((Stats::from_json(doc.get("stats")?)?, doc.get("capped")?.as_bool()?))
        });
        let _ = std::fs::remove_file(&out);
        if std::env::var("VERIF_PROGRESS").is_ok() {
            eprintln!("[C17] {name}: collected at {:.1}s ({status:?})", t0.elapsed().as_secs_f64());
        }
        if parsed.is_none() {
            report.guard(false, &format!("block {name} did not complete ({status:?})"));
        }
        results.push(parsed);
    }
    for ((_, label, bounds), res) in blocks.iter().zip(results.iter_mut()) {
        if let Some((st, capped)) = res.take() {
            per_backend.push(
                J::obj()
                    .set("backend", *label)
                    .set("model_states", st.get("states"))
                    .set("transitions", st.get("transitions"))
                    .set("frontier_left_unexplored", capped)
                    .set("bounds", *bounds),
            );
            total.merge(st);
        }
    }
    for res in results.into_iter().skip(blocks.len()).flatten() {
        total.merge(res.0);
    }
    let subset_purges = total.get("subset_purges");
    let states = total.get("states");
    let transitions = total.get("transitions");
    total.flush_into(&mut report);
    report.cover("subset_purges", subset_purges);
    report.guard(subset_purges >= 4 * 175, "subset-purge block did not run on all four backends");
    report.cover("states", states);
    report.cover("transitions", transitions);
    report.cover("traces_validated_against_impl", transitions);
    report.cover("evaluations", transitions);
    report.cover("distinct_nontrivial", states);
    report.cover(
        "rule",
        "BFS over the reference model's state graph per backend; every transition re-executed on a fresh backend \
         instance (shortest path replay + the call) and the full read surface compared; states = model states",
    );
    report.cover("backends", J::Arr(per_backend));
    report.cover("exhaustive", true);
    report.guard(states > 50, "fewer than 50 model states");
    report.assume("call failures injected by the environment (disk full, I/O errors) are not modelled; torn writes are not modelled");
    report.assume("remove_tombstones is only called with ids that are tombstones, as the Storage contract demands");
    report.assume("keyspace-list oracle: every keyspace holding a row is listed, nothing outside the alphabet is; empty keyspaces may or may not be listed (the backends legitimately differ)");
    report.finish()
}

pub fn replay(case: &J) -> i32 {
    let backend = case.get("backend").and_then(|v| v.as_str()).unwrap_or("");
    let path: Vec<Call> = case
        .get("path")
        .and_then(|v| v.as_arr())
        .unwrap_or(&[])
        .iter()
        .filter_map(Call::from_json)
        .collect();
    let Some(call) = case.get("call").and_then(Call::from_json) else { return 2 };
    fn go<B: Backend>(path: &[Call], call: &Call) -> i32 {
        let track = B::PER_HANDLE_CACHE;
        let mut m = Model::default();
        for c in path {
            m.apply(c, track);
        }
        m.apply(call, track);
        let mut st = Stats::default();
        let ok = check_transition::<B>(path, call, &m, &mut st);
        println!("backend {}: path {:?} then {:?}", B::NAME, path, call);
        for f in &st.found {
            println!("  {}: {}", f.key, f.what);
        }
        (!ok) as i32
    }
    match backend {
        "MemStore" => go::<MemBackend>(&path, &call),
        "SQLite (in memory)" => go::<SqliteMem>(&path, &call),
        "SQLite (file)" => go::<SqliteFile>(&path, &call),
        "LMDB" => go::<Lmdb>(&path, &call),
        _ => 2,
    }
}
