//! Shared vocabulary for the Layer-A (pure CRDT) checks: operations, timestamp grids,
//! reference last-writer-wins oracle, canonical views of a real `OrSWotSet`.

use std::collections::BTreeMap;
use std::time::Duration;

use datacake_crdt::verif::VerifSnapshot;
use datacake_crdt::{HLCTimestamp, OrSWotSet};
use vkit::J;

/// All Layer-A timestamps are offsets from this base so that "minus one hour" never
/// saturates at zero.
pub const BASE_SECS: u64 = 1_000_000;
pub const HOUR: Duration = Duration::from_secs(3600);

pub fn ts_min(mins: u64, counter: u16, node: u8) -> HLCTimestamp {
    HLCTimestamp::new(Duration::from_secs(BASE_SECS + mins * 60), counter, node)
}

#[derive(Clone, Copy, Debug, PartialEq, Eq, PartialOrd, Ord, Hash)]
pub struct Op {
    pub key: u64,
    pub del: bool,
    pub ts: HLCTimestamp,
}

impl Op {
    pub fn ins(key: u64, ts: HLCTimestamp) -> Self {
        Self { key, del: false, ts }
    }
    pub fn del(key: u64, ts: HLCTimestamp) -> Self {
        Self { key, del: true, ts }
    }
    pub fn origin(&self) -> u8 {
        self.ts.node()
    }
    pub fn to_json(&self) -> J {
        J::obj()
            .set("kind", if self.del { "del" } else { "ins" })
            .set("key", self.key)
            .set("ts", self.ts.to_string())
            .set("ts_u64", self.ts.as_u64().to_string())
    }
    pub fn from_json(j: &J) -> Option<Op> {
        let del = j.get("kind")?.as_str()? == "del";
        let key = j.get("key")?.as_u64()?;
        let raw: u64 = j.get("ts_u64")?.as_str()?.parse().ok()?;
        Some(Op {
            key,
            del,
            ts: HLCTimestamp::from_u64(raw),
        })
    }
}

pub fn apply<const N: usize>(s: &mut OrSWotSet<N>, src: usize, op: Op) -> bool {
    if op.del {
        s.delete_with_source(src, op.key, op.ts)
    } else {
        s.insert_with_source(src, op.key, op.ts)
    }
}

/// What a replica exposes about one key.
#[derive(Clone, Copy, Debug, PartialEq, Eq, PartialOrd, Ord, Hash)]
pub enum KeyView {
    Absent,
    Live(HLCTimestamp),
    Dead(HLCTimestamp),
}

impl KeyView {
    pub fn to_json(&self) -> J {
        match self {
            KeyView::Absent => J::from("absent"),
            KeyView::Live(t) => J::from(format!("live@{t}")),
            KeyView::Dead(t) => J::from(format!("dead@{t}")),
        }
    }
}

pub fn key_view(snap: &VerifSnapshot, key: u64) -> KeyView {
    if let Some((_, t)) = snap.entries.iter().find(|(k, _)| *k == key) {
        return KeyView::Live(*t);
    }
    if let Some((_, t)) = snap.dead.iter().find(|(k, _)| *k == key) {
        return KeyView::Dead(*t);
    }
    KeyView::Absent
}

/// `get` for every key of the universe: the "lookup" observation of the properties.
pub fn live_view<const N: usize>(s: &OrSWotSet<N>, keys: &[u64]) -> Vec<Option<HLCTimestamp>> {
    keys.iter().map(|k| s.get(k).copied()).collect()
}

pub fn live_json(v: &[Option<HLCTimestamp>]) -> J {
    J::Arr(
        v.iter()
            .map(|t| match t {
                Some(t) => J::from(t.to_string()),
                None => J::Null,
            })
            .collect(),
    )
}

/// Reference oracle: per key the operation with the greatest timestamp wins; an insert
/// beats a delete carrying the very same timestamp.
pub fn lww<'a>(ops: impl IntoIterator<Item = &'a Op>, keys: &[u64]) -> Vec<Option<HLCTimestamp>> {
    let mut best: BTreeMap<u64, Op> = BTreeMap::new();
    for op in ops {
        match best.get(&op.key) {
            None => {
                best.insert(op.key, *op);
            },
            Some(cur) => {
                let newer = op.ts > cur.ts || (op.ts == cur.ts && cur.del && !op.del);
                if newer {
                    best.insert(op.key, *op);
                }
            },
        }
    }
    keys.iter()
        .map(|k| best.get(k).and_then(|o| if o.del { None } else { Some(o.ts) }))
        .collect()
}

pub fn snap_json(s: &VerifSnapshot) -> J {
    let pairs = |v: &Vec<(u64, HLCTimestamp)>| {
        J::Arr(
            v.iter()
                .map(|(k, t)| J::from(format!("{k}@{t}")))
                .collect(),
        )
    };
    J::obj()
        .set("live", pairs(&s.entries))
        .set("dead", pairs(&s.dead))
        .set(
            "max_stamps",
            J::Arr(
                s.max_stamps
                    .iter()
                    .map(|m| {
                        J::Arr(
                            m.iter()
                                .map(|(n, t)| J::from(format!("n{n}:{t}")))
                                .collect(),
                        )
                    })
                    .collect(),
            ),
        )
        .set(
            "safe_stamps",
            J::Arr(
                s.safe_stamps
                    .iter()
                    .map(|(n, t)| J::from(format!("n{n}:{t}")))
                    .collect(),
            ),
        )
}

/// The harness's own bookkeeping of the C04/C08 precondition: an operation is *timely*
/// for a replica if it is strictly inside the forgiveness window relative to the newest
/// stamp this replica has already been handed from the same origin (through any source).
#[derive(Clone, Debug, Default, PartialEq, Eq, Hash)]
pub struct SeenTracker {
    newest: BTreeMap<u8, HLCTimestamp>,
}

impl SeenTracker {
    pub fn is_timely(&self, ts: HLCTimestamp) -> bool {
        match self.newest.get(&ts.node()) {
            None => true,
            Some(max) => {
                ts.datacake_timestamp() + HOUR > max.datacake_timestamp()
            },
        }
    }
    /// Stronger: strictly inside the window relative to the newest stamp seen from *any*
    /// origin (what "every operation arrives within an hour of its timestamp" means for
    /// one replica when clocks agree).
    pub fn is_globally_timely(&self, ts: HLCTimestamp) -> bool {
        self.newest
            .values()
            .all(|max| ts.datacake_timestamp() + HOUR > max.datacake_timestamp())
    }
    pub fn observe(&mut self, ts: HLCTimestamp) {
        let e = self.newest.entry(ts.node()).or_insert(ts);
        if ts > *e {
            *e = ts;
        }
    }
}
