//! Layer B: an in-process cluster world built from the real datacake objects.
//!
//! Per node: a real `Clock`, `RpcNetwork`, `KeyspaceGroup<S>` with real keyspace actors,
//! an in-process `Server` (H3) carrying the real `ConsistencyService` and
//! `ReplicationService`, the real selector actor, the real task distributor behind a
//! flush gate (H5), the real `ReplicatedStoreHandle`, and the real poller invoked one
//! cycle at a time. Everything lives on one paused current-thread runtime; the injected
//! wall clock (H1) advances by 4 ms per harness event, so every execution is deterministic.

use std::borrow::Cow;
use std::collections::BTreeMap;
use std::net::SocketAddr;
use std::sync::Arc;
use std::time::Duration;

use datacake_crdt::verif::set_wall_clock;
use datacake_crdt::{HLCTimestamp, Key, OrSWotSet, DATACAKE_EPOCH};
use datacake_eventual_consistency::verif as ec;
use datacake_eventual_consistency::{ReplicatedStoreHandle, Storage};
use datacake_node::verif as nv;
use datacake_node::{
    Clock,
    ClusterMember,
    DCAwareSelector,
    DatacakeHandle,
    MembershipChange,
    NodeId,
    NodeSelectorHandle,
    Nodes,
    RpcNetwork,
};
use datacake_rpc::Server;
use tokio::sync::Semaphore;
use vkit::e2::settle;

pub type Set2 = OrSWotSet<2>;
pub type Mailbox<S> = puppet::ActorMailbox<ec::KeyspaceActor<S>>;

/// Base of the injected wall clock (datacake seconds).
pub const WALL_BASE_SECS: u64 = 70_000_000;

pub fn node_addr(id: NodeId) -> SocketAddr {
    SocketAddr::from(([10, 1, 0, id], 8000))
}

/// The injected wall clock of a world: a counter of 4 ms ticks.
pub struct Wall {
    ticks: std::cell::Cell<u64>,
}

impl Wall {
    pub fn start() -> Self {
        let w = Self { ticks: std::cell::Cell::new(0) };
        w.publish();
        w
    }
    fn publish(&self) {
        set_wall_clock(Some(
            DATACAKE_EPOCH + Duration::from_secs(WALL_BASE_SECS) + Duration::from_millis(4 * self.ticks.get()),
        ));
    }
    /// Advances the wall clock by one 4 ms tick.
    pub fn tick(&self) {
        self.ticks.set(self.ticks.get() + 1);
        self.publish();
    }
    /// Advances the wall clock by `d`.
    pub fn advance(&self, d: Duration) {
        self.ticks.set(self.ticks.get() + (d.as_millis() as u64) / 4);
        self.publish();
    }
    /// Moves the wall clock back by `d` (a node whose clock runs ahead has issued its stamp).
    pub fn rewind(&self, d: Duration) {
        self.ticks.set(self.ticks.get().saturating_sub((d.as_millis() as u64) / 4));
        self.publish();
    }
}

impl Drop for Wall {
    fn drop(&mut self) {
        set_wall_clock(None);
    }
}

pub struct Node<S: Storage> {
    pub id: NodeId,
    pub addr: SocketAddr,
    pub dc: String,
    pub clock: Clock,
    pub network: RpcNetwork,
    pub storage: Arc<S>,
    pub group: ec::KeyspaceGroup<S>,
    pub server: Server,
    pub selector: NodeSelectorHandle,
    pub handle: DatacakeHandle,
    pub distributor: ec::Distributor,
    pub gate: Arc<Semaphore>,
    pub store: ReplicatedStoreHandle<S>,
    pub repair_state: ec::RepairState,
}

/// Resets every thread-local seam; call at the start of each execution.
pub fn reset_seams() {
    crate::stores::clear_call_windows();
    datacake_rpc::verif::set_in_process(true);
    datacake_rpc::verif::reset();
    ec::clear_flush_gates();
}

impl<S: Storage> Node<S> {
    /// Starts a node on `storage` (loading whatever the storage already holds).
    pub async fn start(id: NodeId, dc: &str, storage: Arc<S>) -> Self {
        let addr = node_addr(id);
        let clock = Clock::new(id);
        let network = RpcNetwork::default();
        let selector = nv::start_node_selector(addr, Cow::Owned(dc.to_string()), DCAwareSelector).await;
        let me = ClusterMember::new(id, addr, dc.to_string());
        let (handle, _changes_tx) = nv::new_handle(me, clock.clone(), network.clone(), selector.clone());
        let group = ec::KeyspaceGroup::new(storage.clone(), clock.clone()).await;
        group
            .load_states_from_storage()
            .await
            .unwrap_or_else(|e| panic!("load_states_from_storage failed: {e}"));
        let server = Server::listen(addr).await.expect("listen");
        server.add_service(ec::ConsistencyService::new(group.clone(), network.clone()));
        server.add_service(ec::ReplicationService::new(group.clone()));
        let gate = ec::install_flush_gate(id);
        let distributor = ec::Distributor::start::<S>(clock.clone(), network.clone(), id, addr).await;
        let store = ec::new_store_handle(handle.clone(), group.clone(), &distributor);
        settle().await;
        Self {
            id,
            addr,
            dc: dc.to_string(),
            clock,
            network,
            storage,
            group,
            server,
            selector,
            handle,
            distributor,
            gate,
            store,
            repair_state: ec::RepairState::default(),
        }
    }

    /// Tells the node's selector and distributor who the members are (the job of the
    /// membership watcher, C16).
    pub async fn set_membership(&self, members: &[(NodeId, String)]) {
        let mut dcs: BTreeMap<Cow<'static, str>, Nodes> = BTreeMap::new();
        for (id, dc) in members {
            dcs.entry(Cow::Owned(dc.clone())).or_default().push(node_addr(*id));
        }
        nv::set_nodes(&self.selector, dcs).await;
        let joined = members
            .iter()
            .filter(|(id, _)| *id != self.id)
            .map(|(id, dc)| ClusterMember::new(*id, node_addr(*id), dc.clone()))
            .collect();
        self.distributor.membership_change(MembershipChange { joined, left: vec![] });
    }

    /// Lets this node's distributor run one batching round (the 1 s flush).
    pub async fn tick(&self) {
        self.gate.add_permits(1);
        tokio::time::sleep(Duration::from_millis(1001)).await;
        settle().await;
    }

    /// One real repair cycle of this node against the given peers.
    pub async fn repair_from(&mut self, peers: &[NodeId]) {
        let map: BTreeMap<NodeId, SocketAddr> = peers.iter().map(|p| (*p, node_addr(*p))).collect();
        ec::repair_cycle(self.group.clone(), self.network.clone(), &map, &mut self.repair_state).await;
        settle().await;
    }

    /// The in-memory set of a keyspace, through the actor's own `Serialize` reply.
    pub async fn set_of(&self, keyspace: &str) -> Result<Set2, String> {
        let ks = self.group.get_or_create_keyspace(keyspace).await;
        let bytes = ks.send(ec::Serialize).await.map_err(|e| e.to_string())?;
        decode_set(&bytes)
    }

    pub fn stop(self) -> Arc<S> {
        datacake_rpc::verif::unregister(self.addr);
        self.distributor.kill();
        self.server.shutdown();
        self.storage
    }
}

pub fn decode_set(bytes: &[u8]) -> Result<Set2, String> {
    let mut aligned = rkyv::AlignedVec::with_capacity(bytes.len());
    aligned.extend_from_slice(bytes);
    // the crate's own public decoder: a set may keep derived data out of its archived form
    // and rebuild it there
    Set2::from_bytes(&aligned).map_err(|_| "set does not decode".to_string())
}

/// (live rows, tombstone rows) of a set, as (id, stamp) pairs.
pub fn set_rows(set: &Set2) -> (Vec<(Key, HLCTimestamp)>, Vec<(Key, HLCTimestamp)>) {
    let s = set.verif_snapshot();
    (s.entries, s.dead)
}

/// A cluster of nodes on one runtime. `layout` lists (node id, data centre).
pub struct Cluster<S: Storage> {
    pub nodes: Vec<Node<S>>,
    pub layout: Vec<(NodeId, String)>,
}

impl<S: Storage> Cluster<S> {
    pub async fn start(layout: &[(NodeId, String)], mut make_store: impl FnMut(NodeId) -> Arc<S>) -> Self {
        let mut nodes = Vec::new();
        for (id, dc) in layout {
            nodes.push(Node::start(*id, dc, make_store(*id)).await);
        }
        for n in &nodes {
            n.set_membership(layout).await;
        }
        settle().await;
        Self { nodes, layout: layout.to_vec() }
    }

    pub fn index_of(&self, id: NodeId) -> usize {
        self.nodes.iter().position(|n| n.id == id).expect("node id")
    }

    /// Node `i` repairs from node `j` (one real poller cycle against that single peer).
    pub async fn repair(&mut self, i: usize, j: usize) {
        let peer = self.nodes[j].id;
        self.nodes[i].repair_from(&[peer]).await;
    }

    /// Every node completes an anti-entropy exchange with every other node, in the given
    /// order of (repairing node, source node) pairs.
    pub async fn closing_round(&mut self, order: &[(usize, usize)]) {
        for (i, j) in order {
            self.repair(*i, *j).await;
        }
    }

    pub fn all_pairs(&self) -> Vec<(usize, usize)> {
        let n = self.nodes.len();
        let mut v = Vec::new();
        for i in 0..n {
            for j in 0..n {
                if i != j {
                    v.push((i, j));
                }
            }
        }
        v
    }
}
