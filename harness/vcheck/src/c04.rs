//! C04 — per key the greatest timestamp wins, whatever order operations arrive in.
//!
//! Engine: exhaustive depth-first enumeration of arrival sequences (E4/E1, Layer A) on the
//! real `OrSWotSet<1>` and `OrSWotSet<2>`: every ordered selection of up to `depth`
//! operations of a fixed pool, every assignment of sources, optionally with one duplicate
//! delivery. The oracle runs after *every* step (every prefix is itself a sequence).

use datacake_crdt::OrSWotSet;
use vkit::{fp128, par, Report, Stats, Tier, J};

use crate::crdt::*;

pub const KEYS: [u64; 2] = [1, 2];

/// The operation pool. Every origin touches both keys (a pool where origin and key
/// coincide hides the per-(source, origin) rule); stamps are pairwise distinct, include
/// ties that differ only in the counter and only in the node id, and gaps both inside
/// and beyond the one-hour forgiveness period.
pub fn pool() -> Vec<Op> {
    const A: u8 = 1;
    const B: u8 = 2;
    vec![
        Op::ins(1, ts_min(0, 0, A)),
        Op::ins(2, ts_min(0, 1, A)),
        Op::ins(1, ts_min(10, 0, A)),
        Op::del(1, ts_min(10, 0, B)), // differs from the previous only in node id
        Op::ins(2, ts_min(20, 0, B)),
        Op::del(2, ts_min(20, 1, B)), // differs from the previous only in counter
        Op::del(1, ts_min(50, 0, A)),
        Op::ins(2, ts_min(50, 0, B)),
        Op::ins(1, ts_min(75, 0, B)),  // > 1h after B's first stamps
        Op::del(2, ts_min(130, 0, A)), // > 1h after everything else of A
    ]
}

#[derive(Clone)]
struct Step {
    op: Op,
    src: usize,
}

fn steps_json(n_sources: usize, steps: &[Step]) -> J {
    J::obj().set("n_sources", n_sources).set(
        "steps",
        J::Arr(
            steps
                .iter()
                .map(|s| s.op.to_json().set("src", s.src))
                .collect(),
        ),
    )
}

struct Ctx<'a> {
    pool: &'a [Op],
    depth: usize,
    dups: usize,
    /// Sharding: at depth 0 only this pool index is expanded.
    only_first: Option<usize>,
}

fn dfs<const N: usize>(
    cx: &Ctx,
    set: &OrSWotSet<N>,
    seen: &SeenTracker,
    used: &mut Vec<u8>,
    trail: &mut Vec<Step>,
    dups_used: usize,
    st: &mut Stats,
) {
    if trail.len() == cx.depth {
        return;
    }
    for (i, op) in cx.pool.iter().enumerate() {
        if trail.is_empty() && cx.only_first.map_or(false, |f| f != i) {
            continue;
        }
        let is_dup = used[i] > 0;
        if is_dup && (dups_used >= cx.dups || used[i] >= 2) {
            continue;
        }
        if !seen.is_timely(op.ts) {
            // Outside the stated precondition: not explored further, but counted.
            st.inc("filtered_untimely");
            continue;
        }
        for src in 0..N {
            let mut next = set.clone();
            let before = next.verif_snapshot();
            let predicted = next.will_apply(op.key, op.ts);
            let returned = apply(&mut next, src, *op);
            let after = next.verif_snapshot();

            trail.push(Step { op: *op, src });
            used[i] += 1;
            st.inc("transitions");
            st.seen("states", fp128(&after));
            if is_dup {
                st.inc("duplicate_deliveries");
            }

            // --- per-step oracle
            let kv_before = key_view(&before, op.key);
            let kv_after = key_view(&after, op.key);
            let changed = kv_before != kv_after;
            let arrival_out_of_order = trail[..trail.len() - 1]
                .iter()
                .any(|s| s.op.ts > op.ts);
            if arrival_out_of_order {
                st.inc("steps_arriving_out_of_timestamp_order");
            }
            if !returned {
                st.inc("steps_refused");
            }
            if matches!(kv_before, KeyView::Dead(_)) {
                st.inc("steps_on_tombstoned_key");
            }
            if predicted != returned {
                st.violation(
                    "will-apply-disagrees-with-result",
                    || {
                        format!(
                            "will_apply said {predicted} but the {} returned {returned}",
                            if op.del { "delete" } else { "insert" }
                        )
                    },
                    || steps_json(N, trail),
                );
            }
            if returned != changed {
                st.violation(
                    "result-disagrees-with-view-change",
                    || {
                        format!(
                            "call returned {returned} but the key's view went {:?} -> {:?}",
                            kv_before, kv_after
                        )
                    },
                    || steps_json(N, trail),
                );
            }
            // No other key may be touched.
            for k in KEYS {
                if k != op.key && key_view(&before, k) != key_view(&after, k) {
                    st.violation(
                        "other-key-changed",
                        || format!("operation on key {} changed key {k}", op.key),
                        || steps_json(N, trail),
                    );
                }
            }

            // --- every prefix is a sequence: final-state oracle
            let want = lww(trail.iter().map(|s| &s.op), &KEYS);
            let got = live_view(&next, &KEYS);
            st.inc("sequences");
            if want != got {
                let any_reordered = trail.windows(2).any(|w| w[0].op.ts > w[1].op.ts);
                let shape = if any_reordered { "reordered" } else { "in-order" };
                st.violation(
                    &format!("lww-mismatch/{shape}"),
                    || {
                        format!(
                            "after the sequence lookups return {} but the greatest-timestamp rule gives {}",
                            live_json(&got).to_string_compact(),
                            live_json(&want).to_string_compact()
                        )
                    },
                    || steps_json(N, trail),
                );
            } else {
                st.seen("outcomes", fp128(&got));
            }
            if trail.len() == cx.depth {
                st.sample(|| steps_json(N, trail));
            }

            let mut seen2 = seen.clone();
            seen2.observe(op.ts);
            dfs(
                cx,
                &next,
                &seen2,
                used,
                trail,
                dups_used + is_dup as usize,
                st,
            );
            used[i] -= 1;
            trail.pop();
        }
    }
}

fn explore<const N: usize>(pool: &[Op], depth: usize, dups: usize) -> Stats {
    // Shard on the first operation so the work spreads over all cores; results are merged
    // in pool order, so counts and first witnesses do not depend on thread timing.
    let firsts: Vec<usize> = (0..pool.len()).collect();
    let parts = par::par_map(&firsts, |_, &first| {
        let mut st = Stats::default();
        let cx = Ctx {
            pool,
            depth,
            dups,
            only_first: Some(first),
        };
        let mut used = vec![0u8; pool.len()];
        let mut trail = Vec::new();
        dfs::<N>(
            &cx,
            &OrSWotSet::<N>::default(),
            &SeenTracker::default(),
            &mut used,
            &mut trail,
            0,
            &mut st,
        );
        st
    });
    let mut all = Stats::default();
    for p in parts {
        all.merge(p);
    }
    all
}

pub fn run(tier: Tier) -> i32 {
    let mut report = Report::new("C04", tier, "model_checking");
    let pool = pool();
    let depth = tier.pick(5, 6);
    let dups = tier.pick(1, 2);

    let mut total = Stats::default();
    total.merge(explore::<1>(&pool, depth, dups));
    total.merge(explore::<2>(&pool, depth, dups));
    if tier.is_thorough() {
        // Three sources: the per-source bookkeeping generalises over N.
        total.merge(explore::<3>(&pool, depth - 1, dups));
        // one level deeper without duplicates on the two-source set the store uses
        total.merge(explore::<2>(&pool, depth + 1, 0));
    }

    let sequences = total.get("sequences");
    let transitions = total.get("transitions");
    let states = total.distinct_count("states");
    let outcomes = total.distinct_count("outcomes");
    let ooo = total.get("steps_arriving_out_of_timestamp_order");
    let refused = total.get("steps_refused");
    let on_tomb = total.get("steps_on_tombstoned_key");
    let dup = total.get("duplicate_deliveries");
    let filtered = total.get("filtered_untimely");
    total.flush_into(&mut report);

    report.cover("states", states);
    report.cover("transitions", transitions);
    report.cover("traces_validated_against_impl", sequences);
    report.cover("evaluations", sequences);
    report.cover("distinct_nontrivial", outcomes);
    report.cover(
        "rule",
        "every ordered selection (with at most one duplicated delivery) of up to `depth` operations \
         from the pool, times every source assignment, for 1, 2 (and in thorough 3) sources; executed on the real \
         OrSWotSet; distinct_nontrivial = distinct final lookup results that matched the oracle; states = distinct \
         full set snapshots reached",
    );
    report.cover("exhaustive", true);
    report.cover("pool_size", pool.len());
    report.cover("depth", depth);
    report.cover("max_duplicate_deliveries", dups);
    report.cover(
        "pool",
        J::Arr(pool.iter().map(|o| o.to_json()).collect()),
    );
    report.guard_nonzero("guard_steps_out_of_timestamp_order", ooo);
    report.guard_nonzero("guard_steps_refused", refused);
    report.guard_nonzero("guard_steps_on_tombstoned_key", on_tomb);
    report.guard_nonzero("guard_duplicate_deliveries", dup);
    report.guard_nonzero("guard_filtered_by_precondition", filtered);
    report.guard(outcomes > 4, "fewer than 5 distinct outcomes");
    report.assume(
        "precondition as stated: an operation is only delivered while it is strictly less than one hour older than \
         the newest stamp the replica was already handed from the same origin (harness bookkeeping, any source)",
    );
    report.assume("two keys, two origin nodes, ten fixed operations; timestamps outside the pool are not covered");
    report.finish()
}

pub fn replay(case: &J) -> i32 {
    let n = case.get("n_sources").and_then(|v| v.as_u64()).unwrap_or(2) as usize;
    let steps: Vec<(Op, usize)> = case
        .get("steps")
        .and_then(|v| v.as_arr())
        .unwrap_or(&[])
        .iter()
        .filter_map(|j| Some((Op::from_json(j)?, j.get("src")?.as_u64()? as usize)))
        .collect();
    fn go<const N: usize>(steps: &[(Op, usize)]) -> i32 {
        let mut s = OrSWotSet::<N>::default();
        let mut bad = false;
        let mut done = Vec::new();
        for (op, src) in steps {
            let before = key_view(&s.verif_snapshot(), op.key);
            let predicted = s.will_apply(op.key, op.ts);
            let returned = apply(&mut s, *src, *op);
            let after = key_view(&s.verif_snapshot(), op.key);
            done.push(*op);
            let want = lww(done.iter(), &KEYS);
            let got = live_view(&s, &KEYS);
            let ok = predicted == returned && returned == (before != after) && want == got;
            bad |= !ok;
            println!(
                "{} key={} ts={} src={} will_apply={} returned={} view {:?}->{:?} lookups={} expected={} {}",
                if op.del { "del" } else { "ins" },
                op.key,
                op.ts,
                src,
                predicted,
                returned,
                before,
                after,
                live_json(&got).to_string_compact(),
                live_json(&want).to_string_compact(),
                if ok { "" } else { "<-- VIOLATES" }
            );
        }
        bad as i32
    }
    match n {
        1 => go::<1>(&steps),
        3 => go::<3>(&steps),
        _ => go::<2>(&steps),
    }
}
