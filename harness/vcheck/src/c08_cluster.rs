//! C08, cluster clause — a cluster that purges at arbitrary moments converges to the same
//! live documents as one that never purges, whenever every operation reaches every replica
//! within less than the forgiveness period of its timestamp, clock skew included.
//!
//! Engine E1 (Layer-A cluster model with explicit time). Replicas are real `OrSWotSet<2>`
//! values; the ~30 lines of glue around them (local apply on the consistency source,
//! direct delivery on the consistency source, repair = real `diff` + actor-style batch
//! application on the read-repair source) are restated here — the same glue C05 uses and
//! C02/C01 check against the real actor and poller. Global time advances in 20-minute
//! steps; node n stamps its operations with `time + skew(n)`. The explorer *enforces* the
//! precondition: time may not advance while that would leave some operation undelivered at
//! some replica for longer than `1 h - skew spread - one step`.
//!
//! Differential oracle, no hand-written expectation: every state carries a twin cluster
//! that sees exactly the same events except the purges; lookups of every replica must equal
//! its twin's in EVERY state, and after the closing phase additionally the reference
//! last-writer-wins result.

use std::collections::HashSet;

use datacake_crdt::HLCTimestamp;
use vkit::{fp128, par, Stats, Tier, J};

use crate::c05::{apply_batch_like_actor, READ_REPAIR_SOURCE};
use crate::crdt::*;
use crate::gen::Set2;

const KEYS: [u64; 2] = [1, 2];
const STEP_MIN: u64 = 20;
const CONSISTENCY_SOURCE: usize = 0;

#[derive(Clone, Debug, PartialEq, Eq, Hash)]
enum Ev {
    Issue { node: usize, del: bool, key: u64 },
    Deliver { op: usize, to: usize },
    Repair { to: usize, from: usize, removals_first: bool },
    Purge { at: usize },
    Advance,
}

#[derive(Clone)]
struct IssuedOp {
    op: Op,
    issued_at: u64, // global minutes
    reached: Vec<bool>,
}

#[derive(Clone)]
struct World {
    now: u64,
    skew: Vec<u64>,
    counters: Vec<u16>,
    replicas: Vec<Set2>,
    twins: Vec<Set2>,
    ops: Vec<IssuedOp>,
    purges: usize,
    advances: usize,
    repairs: usize,
}

struct Bounds {
    n: usize,
    /// per node: the (is_delete, key) kinds it may issue
    kinds: Vec<Vec<(bool, u64)>>,
    both_batch_orders: bool,
    max_ops: usize,
    max_purges: usize,
    max_repairs: usize,
    horizon_steps: usize,
    max_dup_deliveries: usize,
}

impl World {
    fn new(n: usize, skew: &[u64]) -> Self {
        Self {
            now: 0,
            skew: skew.to_vec(),
            counters: vec![0; n],
            replicas: vec![Set2::default(); n],
            twins: vec![Set2::default(); n],
            ops: Vec::new(),
            purges: 0,
            advances: 0,
            repairs: 0,
        }
    }

    fn spread(&self) -> u64 {
        self.skew.iter().max().unwrap() - self.skew.iter().min().unwrap()
    }

    /// Largest delivery delay (minutes) that keeps "delay + skew spread < 1 h".
    fn max_delay(&self) -> u64 {
        // strictly less than 60 - spread, in whole steps
        let limit = 60 - self.spread();
        ((limit - 1) / STEP_MIN) * STEP_MIN
    }

    fn fingerprint(&self) -> u128 {
        let snaps: Vec<_> = self.replicas.iter().map(|r| r.verif_snapshot()).collect();
        let twins: Vec<_> = self.twins.iter().map(|r| r.verif_snapshot()).collect();
        let ops: Vec<_> = self.ops.iter().map(|o| (o.op, o.issued_at, o.reached.clone())).collect();
        fp128(&(self.now, &self.counters, snaps, twins, ops, self.purges, self.repairs))
    }

    fn enabled(&self, b: &Bounds, dups_used: usize) -> Vec<Ev> {
        let mut evs = Vec::new();
        if self.ops.len() < b.max_ops {
            for node in 0..b.n {
                for &(del, key) in &b.kinds[node] {
                    evs.push(Ev::Issue { node, del, key });
                }
            }
        }
        for (i, o) in self.ops.iter().enumerate() {
            for r in 0..b.n {
                let timely = self.now - o.issued_at <= self.max_delay();
                if !o.reached[r] && timely {
                    evs.push(Ev::Deliver { op: i, to: r });
                } else if o.reached[r] && timely && dups_used < b.max_dup_deliveries && r != o.op.origin() as usize - 1 {
                    evs.push(Ev::Deliver { op: i, to: r }); // duplicate delivery
                }
            }
        }
        if self.repairs < b.max_repairs {
            for to in 0..b.n {
                for from in 0..b.n {
                    if to != from {
                        evs.push(Ev::Repair { to, from, removals_first: true });
                        if b.both_batch_orders {
                            evs.push(Ev::Repair { to, from, removals_first: false });
                        }
                    }
                }
            }
        }
        if self.purges < b.max_purges {
            for at in 0..b.n {
                evs.push(Ev::Purge { at });
            }
        }
        // time may advance only if afterwards every operation can still reach every replica in time
        // (advancing before anything was issued only shifts the whole history in time)
        let can_advance = self.advances < b.horizon_steps
            && !self.ops.is_empty()
            && self.ops.iter().all(|o| o.reached.iter().all(|x| *x) || self.now + STEP_MIN - o.issued_at <= self.max_delay());
        if can_advance {
            evs.push(Ev::Advance);
        }
        evs
    }

    fn apply_to(set: &mut Set2, src: usize, op: Op) {
        apply(set, src, op);
    }

    fn repair(to: &mut Set2, from: &Set2, removals_first: bool) {
        let (changes, removals) = to.diff(from);
        if removals_first {
            apply_batch_like_actor(to, &removals, true);
            apply_batch_like_actor(to, &changes, false);
        } else {
            apply_batch_like_actor(to, &changes, false);
            apply_batch_like_actor(to, &removals, true);
        }
        let _ = READ_REPAIR_SOURCE;
    }

    fn step(&mut self, ev: &Ev) {
        match ev {
            Ev::Issue { node, del, key } => {
                let mins = self.now + self.skew[*node];
                let ts = ts_min(mins, self.counters[*node], *node as u8 + 1);
                self.counters[*node] += 1;
                let op = Op { key: *key, del: *del, ts };
                // the issuer applies its own write first (refused locally if it already holds newer)
                Self::apply_to(&mut self.replicas[*node], CONSISTENCY_SOURCE, op);
                Self::apply_to(&mut self.twins[*node], CONSISTENCY_SOURCE, op);
                let mut reached = vec![false; self.replicas.len()];
                reached[*node] = true;
                self.ops.push(IssuedOp { op, issued_at: self.now, reached });
            },
            Ev::Deliver { op, to } => {
                let o = self.ops[*op].op;
                Self::apply_to(&mut self.replicas[*to], CONSISTENCY_SOURCE, o);
                Self::apply_to(&mut self.twins[*to], CONSISTENCY_SOURCE, o);
                self.ops[*op].reached[*to] = true;
            },
            Ev::Repair { to, from, removals_first } => {
                let src = self.replicas[*from].clone();
                Self::repair(&mut self.replicas[*to], &src, *removals_first);
                let src = self.twins[*from].clone();
                Self::repair(&mut self.twins[*to], &src, *removals_first);
                // whatever `from` had reached now counts as having reached `to`
                for o in &mut self.ops {
                    if o.reached[*from] {
                        o.reached[*to] = true;
                    }
                }
                self.repairs += 1;
            },
            Ev::Purge { at } => {
                self.replicas[*at].purge_old_deletes();
                self.purges += 1;
            },
            Ev::Advance => {
                self.now += STEP_MIN;
                self.advances += 1;
            },
        }
    }

    /// Deliver everything still pending and run a full repair round (both directions, twice).
    fn close(&mut self) {
        for i in 0..self.ops.len() {
            for r in 0..self.replicas.len() {
                if !self.ops[i].reached[r] {
                    self.step(&Ev::Deliver { op: i, to: r });
                }
            }
        }
        let n = self.replicas.len();
        for _ in 0..2 {
            for to in 0..n {
                for from in 0..n {
                    if to != from {
                        self.step(&Ev::Repair { to, from, removals_first: true });
                    }
                }
            }
        }
    }
}

fn ev_json(e: &Ev) -> J {
    J::from(format!("{e:?}"))
}

fn case_json(skew: &[u64], trail: &[Ev]) -> J {
    J::obj()
        .set("skew_minutes", skew.to_vec())
        .set("events", J::Arr(trail.iter().map(ev_json).collect()))
}

fn check_state(w: &World, skew: &[u64], trail: &[Ev], closing: bool, st: &mut Stats) {
    for r in 0..w.replicas.len() {
        let a = live_view(&w.replicas[r], &KEYS);
        let b = live_view(&w.twins[r], &KEYS);
        if a != b {
            let reappeared = a.iter().zip(&b).any(|(x, y)| x.is_some() && y.is_none());
            let kind = if reappeared { "deleted-document-reappeared" } else { "live-document-lost-or-older" };
            let when = if closing { "after-closing" } else { "mid-history" };
            st.violation(
                &format!("purging-cluster-differs-from-never-purging/{kind}/{when}"),
                || {
                    format!(
                        "replica {r}: with purges lookups are {}, without purges {}",
                        live_json(&a).to_string_compact(),
                        live_json(&b).to_string_compact()
                    )
                },
                || case_json(skew, trail),
            );
        }
    }
    if closing {
        let want = lww(w.ops.iter().map(|o| &o.op), &KEYS);
        for r in 0..w.replicas.len() {
            let got = live_view(&w.replicas[r], &KEYS);
            if got != want {
                st.violation(
                    "converged-result-is-not-last-writer-wins",
                    || format!("replica {r} ends with {} but the greatest stamps give {}", live_json(&got).to_string_compact(), live_json(&want).to_string_compact()),
                    || case_json(skew, trail),
                );
            }
        }
        st.seen("outcomes", fp128(&want));
    }
}

fn dfs(w: &World, b: &Bounds, skew: &[u64], trail: &mut Vec<Ev>, dups: usize, seen: &mut HashSet<u128>, st: &mut Stats, max_events: usize) {
    // the event bound is a property of the path, not of the state: the path length is part
    // of the key, otherwise a state first met near the bound would hide its successors
    if !seen.insert(fp128(&(w.fingerprint(), trail.len()))) {
        return;
    }
    st.inc("states");
    // before the first purge a cluster and its twin are identical by construction
    if w.purges > 0 {
        check_state(w, skew, trail, false, st);
    }
    // every state after a purge is also a possible end of the history: close it and compare
    if w.purges > 0 {
        let mut c = w.clone();
        c.close();
        st.inc("closings");
        check_state(&c, skew, trail, true, st);
        if w.purges > 0 && c.replicas.iter().zip(&c.twins).any(|(a, t)| a.verif_snapshot().dead != t.verif_snapshot().dead) {
            st.inc("closings_where_a_purge_removed_something");
        }
    }
    if trail.len() >= max_events {
        st.inc("paths_cut_at_event_bound");
        return;
    }
    for ev in w.enabled(b, dups) {
        let is_dup = matches!(&ev, Ev::Deliver { op, to } if w.ops[*op].reached[*to]);
        // a purge that removes nothing is the identity: skip (would only duplicate the state)
        if let Ev::Purge { at } = &ev {
            let mut probe = w.replicas[*at].clone();
            if probe.purge_old_deletes().is_empty() {
                continue;
            }
        }
        let mut next = w.clone();
        next.step(&ev);
        st.inc("transitions");
        trail.push(ev);
        dfs(&next, b, skew, trail, dups + is_dup as usize, seen, st, max_events);
        trail.pop();
    }
}

pub fn run(tier: Tier) -> Stats {
    // thorough = everything quick explores (sharp drivers, 14 events) + the full alphabet
    let mut total = if tier.is_thorough() { run_tier(Tier::Quick) } else { Stats::default() };
    total.merge(run_tier(tier));
    total
}

fn run_tier(tier: Tier) -> Stats {
    let mut total = Stats::default();
    let configs: Vec<(usize, Vec<u64>)> = if tier.is_thorough() {
        vec![(2, vec![0, 0]), (2, vec![0, 20]), (2, vec![20, 0]), (3, vec![0, 20, 0])]
    } else {
        vec![(2, vec![0, 20]), (2, vec![20, 0])]
    };
    for (n, skew) in configs {
        let b = Bounds {
            n,
            // key 2 is what lets an origin move on without touching the tombstone of key 1.
            // quick: a sharp driver - node 0 deletes key 1 and writes key 2, the others write key 1
            kinds: if tier.is_thorough() {
                vec![vec![(false, 1), (true, 1), (false, 2), (true, 2)]; n]
            } else {
                let mut k = vec![vec![(false, 1)]; n];
                k[0] = vec![(true, 1), (false, 2)];
                k
            },
            both_batch_orders: tier.is_thorough(),
            max_ops: if n == 3 { 3 } else { 4 },
            max_purges: tier.pick(1, 2),
            max_repairs: 2,
            horizon_steps: tier.pick(5, 6),
            max_dup_deliveries: tier.pick(0, 1),
        };
        let max_events = tier.pick(14, 13);
        // shard on the first two events
        let root = World::new(n, &skew);
        let mut prefixes: Vec<Vec<Ev>> = Vec::new();
        for e1 in root.enabled(&b, 0) {
            let mut w1 = root.clone();
            w1.step(&e1);
            for e2 in w1.enabled(&b, 0) {
                prefixes.push(vec![e1.clone(), e2]);
            }
        }
        let parts = par::par_map(&prefixes, |_, prefix| {
            let mut st = Stats::default();
            let mut w = World::new(n, &skew);
            let mut trail = Vec::new();
            for e in prefix {
                if let Ev::Purge { .. } = e {
                    return st;
                }
                w.step(e);
                trail.push(e.clone());
            }
            let mut seen = HashSet::new();
            dfs(&w, &b, &skew, &mut trail, 0, &mut seen, &mut st, max_events);
            st
        });
        for p in parts {
            total.merge(p);
        }
        total.add("cluster_configs", 1);
        if std::env::var("VERIF_PROGRESS").is_ok() {
            eprintln!("[C08 cluster] config n={n} skew={skew:?} done: transitions so far {}", total.get("transitions"));
        }
    }
    total.sample(|| {
        case_json(
            &[0, 20],
            &[
                Ev::Issue { node: 1, del: true, key: 1 },
                Ev::Advance,
                Ev::Deliver { op: 0, to: 0 },
                Ev::Issue { node: 0, del: false, key: 1 },
            ],
        )
    });
    total
}

pub fn replay(case: &J) -> i32 {
    let skew: Vec<u64> = case
        .get("skew_minutes")
        .and_then(|v| v.as_arr())
        .unwrap_or(&[])
        .iter()
        .filter_map(|v| v.as_u64())
        .collect();
    let mut w = World::new(skew.len(), &skew);
    let mut trail = Vec::new();
    let parse = |s: &str| -> Option<Ev> {
        let num = |key: &str| -> Option<usize> {
            let i = s.find(key)? + key.len();
            s[i..].chars().take_while(|c| c.is_ascii_digit()).collect::<String>().parse().ok()
        };
        if s.starts_with("Issue") {
            Some(Ev::Issue { node: num("node: ")?, del: s.contains("del: true"), key: num("key: ")? as u64 })
        } else if s.starts_with("Deliver") {
            Some(Ev::Deliver { op: num("op: ")?, to: num("to: ")? })
        } else if s.starts_with("Repair") {
            Some(Ev::Repair { to: num("to: ")?, from: num("from: ")?, removals_first: s.contains("removals_first: true") })
        } else if s.starts_with("Purge") {
            Some(Ev::Purge { at: num("at: ")? })
        } else if s.starts_with("Advance") {
            Some(Ev::Advance)
        } else {
            None
        }
    };
    let mut st = Stats::default();
    for e in case.get("events").and_then(|v| v.as_arr()).unwrap_or(&[]) {
        let Some(ev) = e.as_str().and_then(parse) else { return 2 };
        w.step(&ev);
        trail.push(ev.clone());
        println!("{ev:?}");
        for r in 0..w.replicas.len() {
            println!(
                "  replica {r}: {}   twin: {}",
                live_json(&live_view(&w.replicas[r], &KEYS)).to_string_compact(),
                live_json(&live_view(&w.twins[r], &KEYS)).to_string_compact()
            );
        }
        check_state(&w, &skew, &trail, false, &mut st);
    }
    w.close();
    check_state(&w, &skew, &trail, true, &mut st);
    for f in &st.found {
        println!("{}: {}", f.key, f.what);
    }
    let _ = HLCTimestamp::from_u64(0);
    (!st.found.is_empty()) as i32
}
