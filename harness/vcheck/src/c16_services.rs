//! C16, second block — "so that replication and repair address exactly the live peers".
//!
//! The membership events are consumed by three real components that no other block runs:
//! the store's `watch_membership_changes` task (lib.rs), the task distributor's membership
//! bookkeeping and **the poller's own loop** (`replication_cycle`: initial wait, interval,
//! membership operations, one `repair_members` per tick; hook H8). Here they all run on
//! node 0 behind the real membership watcher of datacake-node, and every snapshot sequence
//! over the C16 universe is pushed through them. After (a subset of) the membership
//! changes the harness *probes*: node 0 writes a document (batched replication, level
//! None), writes another one at level All (replica selection through the selector the
//! watcher maintains), every host writes a document of its own, one batching round and one
//! repair interval pass. Then, per address: the host there holds node 0's documents, and
//! node 0 holds the host's document, **exactly when** a live peer has that address; and no
//! request at all went to an address without a live peer.
//!
//! The subscriber (the store's task) exists from the start and runs after every change,
//! so the late/slow-subscriber shapes of the known finding are not in this space.

use std::borrow::Cow;
use std::collections::{BTreeMap, BTreeSet};
use std::net::SocketAddr;
use std::rc::Rc;
use std::cell::RefCell;
use std::sync::Arc;
use std::time::Duration;

use datacake_eventual_consistency::verif as ec;
use datacake_node::Consistency;
use datacake_node::verif as nv;
use datacake_node::{Clock, ClusterMember, DCAwareSelector, NodeId, RpcNetwork};
use datacake_rpc::verif::NetVerdict;
use datacake_rpc::Server;
use tokio::sync::watch;
use vkit::e2::settle;
use vkit::{fp128, par, Report, Stats, Tier, J};

use crate::stores::{read_rows, MapStore};
use crate::world::{node_addr, reset_seams, Node, Wall};

const SELF: NodeId = 0;
const KS: &str = "ks";
const REPAIR_INTERVAL: Duration = Duration::from_secs(600);
type S = MapStore;

/// peer id -> host variant (1 or 2); the host of variant v listens at `host_addr(v)`.
type Peers = BTreeMap<NodeId, u8>;

fn host_id(variant: u8) -> NodeId {
    10 + variant
}
fn host_addr(variant: u8) -> SocketAddr {
    node_addr(host_id(variant))
}

fn snapshots() -> Vec<Peers> {
    let mut v = Vec::new();
    for one in [None, Some(1u8), Some(2u8)] {
        for two in [None, Some(1u8), Some(2u8)] {
            if one.is_some() && one == two {
                continue;
            }
            let mut p = Peers::new();
            if let Some(a) = one {
                p.insert(1, a);
            }
            if let Some(a) = two {
                p.insert(2, a);
            }
            v.push(p);
        }
    }
    v
}

fn membership(p: &Peers) -> nv::NodeMembership {
    let mut m = nv::NodeMembership::new();
    m.insert(SELF, ClusterMember::new(SELF, node_addr(SELF), "dc".into()));
    for (n, a) in p {
        m.insert(*n, ClusterMember::new(*n, host_addr(*a), "dc".into()));
    }
    m
}

fn peers_json(p: &Peers) -> J {
    J::from(p.iter().map(|(n, a)| format!("{n}@host{a}")).collect::<Vec<_>>())
}

#[derive(Clone, Debug, PartialEq, Eq)]
pub struct Scenario {
    /// snapshot indices, in push order
    seq: Vec<usize>,
    /// bit i: the tasks run (and membership settles) after push i; the last push always settles
    settle_mask: u32,
    /// bit i: a probe follows the i-th settle point (the last one is always probed)
    probe_mask: u32,
}

#[derive(Default, Debug, Clone, PartialEq, Eq)]
struct ProbeOutcome {
    live: BTreeSet<u8>,
    /// host variants that hold node 0's batched document of this probe
    batch_reached: BTreeSet<u8>,
    /// host variants that held node 0's level-All document when the call returned
    all_reached: BTreeSet<u8>,
    all_result: String,
    /// host variants whose own document node 0 holds after the repair tick
    pulled_from: BTreeSet<u8>,
    /// host variants that received any request during the probe
    contacted: BTreeSet<u8>,
}

async fn holds(store: &S, id: u64) -> bool {
    read_rows(store, KS).await.map(|r| r.get(&id).map(|(_, d)| d.is_some()).unwrap_or(false)).unwrap_or(false)
}

async fn execute(snaps: &[Peers], sc: &Scenario) -> Vec<ProbeOutcome> {
    reset_seams();
    let wall = Wall::start();
    // ---- hosts: complete nodes at the two peer addresses
    let hosts: Vec<Node<S>> = vec![
        Node::start(host_id(1), "dc", Arc::new(MapStore::default())).await,
        Node::start(host_id(2), "dc", Arc::new(MapStore::default())).await,
    ];
    // ---- node 0: the real membership watcher feeding the real services
    let addr = node_addr(SELF);
    let clock = Clock::new(SELF);
    let network = RpcNetwork::default();
    let selector = nv::start_node_selector(addr, Cow::Borrowed("dc"), DCAwareSelector).await;
    let me = ClusterMember::new(SELF, addr, "dc".to_string());
    let (handle, changes_tx) = nv::new_handle(me, clock.clone(), network.clone(), selector.clone());
    let (snap_tx, snap_rx) = watch::channel(membership(&Peers::new()));
    let storage = Arc::new(MapStore::default());
    let group = ec::KeyspaceGroup::new(storage.clone(), clock.clone()).await;
    let server = Server::listen(addr).await.expect("listen");
    server.add_service(ec::ConsistencyService::new(group.clone(), network.clone()));
    server.add_service(ec::ReplicationService::new(group.clone()));
    let gate = ec::install_flush_gate(SELF);
    let distributor = ec::Distributor::start::<S>(clock.clone(), network.clone(), SELF, addr).await;
    let replication = ec::ReplicationLoop::start(group.clone(), network.clone(), REPAIR_INTERVAL).await;
    // as `EventuallyConsistentStore::create` does, right after the services exist
    let _watch = ec::spawn_membership_watch(&distributor, &replication, handle.clone());
    tokio::spawn(nv::run_membership_watcher(SELF, network.clone(), selector.clone(), snap_rx, changes_tx));
    let store = ec::new_store_handle(handle.clone(), group.clone(), &distributor);
    settle().await;
    // let the poller's initial keyspace wait pass (30 s, or 0.5 s in test-utils builds)
    tokio::time::sleep(Duration::from_secs(31)).await;
    settle().await;

    let contacted: Rc<RefCell<BTreeSet<SocketAddr>>> = Rc::new(RefCell::new(BTreeSet::new()));
    {
        let c = contacted.clone();
        datacake_rpc::verif::set_policy(move |dst, _| {
            c.borrow_mut().insert(dst);
            NetVerdict::Deliver
        });
    }

    let mut outcomes = Vec::new();
    let mut settle_points = 0u32;
    let n = sc.seq.len();
    for (i, s) in sc.seq.iter().enumerate() {
        wall.tick();
        let _ = snap_tx.send(membership(&snaps[*s]));
        let settles = i == n - 1 || sc.settle_mask & (1 << i) != 0;
        if !settles {
            continue;
        }
        settle().await;
        let probe = i == n - 1 || sc.probe_mask & (1 << settle_points) != 0;
        settle_points += 1;
        if !probe {
            continue;
        }
        // ---------------- probe
        let k = outcomes.len() as u64;
        let mut out = ProbeOutcome { live: snaps[*s].values().copied().collect(), ..Default::default() };
        contacted.borrow_mut().clear();
        wall.tick();
        let batch_doc = 100 + k;
        let all_doc = 300 + k;
        store.put(KS, batch_doc, b"batched".to_vec(), Consistency::None).await.expect("local put");
        wall.tick();
        let res = store.put(KS, all_doc, b"all".to_vec(), Consistency::All).await;
        out.all_result = match &res {
            Ok(()) => "Ok".into(),
            Err(e) => format!("{e}"),
        };
        for v in [1u8, 2u8] {
            if holds(hosts[v as usize - 1].storage.as_ref(), all_doc).await {
                out.all_reached.insert(v);
            }
        }
        for v in [1u8, 2u8] {
            wall.tick();
            hosts[v as usize - 1]
                .store
                .put(KS, 200 + 10 * k + v as u64, b"host".to_vec(), Consistency::None)
                .await
                .expect("host put");
        }
        // one batching round of node 0
        gate.add_permits(1);
        tokio::time::sleep(Duration::from_millis(1001)).await;
        settle().await;
        for v in [1u8, 2u8] {
            if holds(hosts[v as usize - 1].storage.as_ref(), batch_doc).await {
                out.batch_reached.insert(v);
            }
        }
        // one repair interval
        tokio::time::sleep(REPAIR_INTERVAL + Duration::from_millis(1)).await;
        settle().await;
        for v in [1u8, 2u8] {
            if holds(storage.as_ref(), 200 + 10 * k + v as u64).await {
                out.pulled_from.insert(v);
            }
        }
        for v in [1u8, 2u8] {
            if contacted.borrow().contains(&host_addr(v)) {
                out.contacted.insert(v);
            }
        }
        outcomes.push(out);
    }
    replication.kill();
    distributor.kill();
    for h in hosts {
        h.stop();
    }
    server.shutdown();
    outcomes
}

fn scenarios(snaps: &[Peers], max_len: usize) -> Vec<Scenario> {
    let mut seqs: Vec<Vec<usize>> = Vec::new();
    let mut cur: Vec<Vec<usize>> = vec![vec![]];
    for _ in 0..max_len {
        cur = cur
            .into_iter()
            .flat_map(|s| {
                (0..snaps.len()).map(move |i| {
                    let mut t = s.clone();
                    t.push(i);
                    t
                })
            })
            .collect();
        seqs.extend(cur.clone());
    }
    let mut out = Vec::new();
    for seq in seqs {
        let n = seq.len();
        for settle_mask in 0..(1u32 << (n - 1)) {
            let settle_points = settle_mask.count_ones() + 1;
            for probe_mask in 0..(1u32 << (settle_points - 1)) {
                out.push(Scenario { seq: seq.clone(), settle_mask, probe_mask });
            }
        }
    }
    out
}

fn case_json(snaps: &[Peers], sc: &Scenario) -> J {
    J::obj()
        .set("block", "services")
        .set("snapshots", J::Arr(sc.seq.iter().map(|i| peers_json(&snaps[*i])).collect()))
        .set("settle_mask", sc.settle_mask as u64)
        .set("probe_mask", sc.probe_mask as u64)
}

fn set_str(s: &BTreeSet<u8>) -> String {
    format!("{:?}", s.iter().map(|v| format!("host{v}")).collect::<Vec<_>>())
}

fn judge(snaps: &[Peers], sc: &Scenario, outs: &[ProbeOutcome], st: &mut Stats) {
    st.inc("svc_executions");
    let rank = (sc.seq.len() * 8 + sc.settle_mask.count_ones() as usize + sc.probe_mask.count_ones() as usize) as u64;
    let case = || case_json(snaps, sc);
    for (k, o) in outs.iter().enumerate() {
        st.inc("svc_probes");
        if !o.live.is_empty() {
            st.inc("svc_probes_with_live_peers");
        }
        if o.live.len() < 2 {
            st.inc("svc_probes_with_an_address_unused");
        }
        let when = if k + 1 == outs.len() { "at-quiescence" } else { "mid-history" };
        let mut flag = |key: &str, what: String, st: &mut Stats| {
            st.violation_ranked(&format!("services/{key}/{when}"), rank, || what.clone(), case);
        };
        if let Some(v) = o.live.difference(&o.batch_reached).next() {
            flag(
                "batch-not-sent-to-a-live-peer",
                format!("probe {k}: live peers at {} but node 0's batched write reached only {} (host{v} missed)", set_str(&o.live), set_str(&o.batch_reached)),
                st,
            );
        }
        if let Some(v) = o.live.difference(&o.pulled_from).next() {
            flag(
                "repair-does-not-poll-a-live-peer",
                format!("probe {k}: live peers at {} but after a repair interval node 0 holds documents of only {} (host{v} not polled)", set_str(&o.live), set_str(&o.pulled_from)),
                st,
            );
        }
        if o.all_result == "Ok" {
            if let Some(v) = o.live.difference(&o.all_reached).next() {
                flag(
                    "level-all-write-missed-a-live-peer",
                    format!("probe {k}: a put at level All returned Ok, live peers at {} but only {} held it (host{v} missed)", set_str(&o.live), set_str(&o.all_reached)),
                    st,
                );
            }
        } else {
            flag(
                "level-all-write-fails-on-a-healthy-cluster",
                format!("probe {k}: a put at level All with every live peer ({}) healthy returned {}", set_str(&o.live), o.all_result),
                st,
            );
        }
        let mut reached = o.batch_reached.clone();
        reached.extend(o.pulled_from.iter().copied());
        reached.extend(o.all_reached.iter().copied());
        reached.extend(o.contacted.iter().copied());
        if let Some(v) = reached.difference(&o.live).next() {
            flag(
                "traffic-to-an-address-without-a-live-peer",
                format!(
                    "probe {k}: live peers at {} but host{v} was addressed (batch reached {}, level-All reached {}, pulled from {}, any request {})",
                    set_str(&o.live),
                    set_str(&o.batch_reached),
                    set_str(&o.all_reached),
                    set_str(&o.pulled_from),
                    set_str(&o.contacted)
                ),
                st,
            );
        }
    }
    st.seen("svc_outcomes", fp128(&format!("{outs:?}")));
}

pub fn run(tier: Tier, report: &mut Report) {
    let snaps = snapshots();
    let max_len = tier.pick(3, 4);
    let scs = scenarios(&snaps, max_len);
    let parts = par::par_map(&scs, |i, sc| {
        let mut st = Stats::default();
        let outs = crate::c13::block_on(execute(&snaps, sc));
        if i % 50 == 0 {
            let again = crate::c13::block_on(execute(&snaps, sc));
            if again != outs {
                st.inc("svc_not_reproducible");
            }
        }
        st.add("svc_transitions", (sc.seq.len() + outs.len() * 6) as u64);
        judge(&snaps, sc, &outs, &mut st);
        st
    });
    let mut total = Stats::default();
    for p in parts {
        total.merge(p);
    }
    total.sample(|| case_json(&snaps, &scs[scs.len() / 2]));
    let execs = total.get("svc_executions");
    let probes = total.get("svc_probes");
    let with_live = total.get("svc_probes_with_live_peers");
    let unused = total.get("svc_probes_with_an_address_unused");
    let transitions = total.get("svc_transitions");
    let irreproducible = total.get("svc_not_reproducible");
    let outcomes = total.distinct_count("svc_outcomes");
    total.flush_into(report);
    report.cover_add("transitions", transitions);
    report.cover_add("traces_validated_against_impl", execs);
    report.cover_add("evaluations", execs);
    report.cover("services_block_executions", execs);
    report.cover("services_block_probes", probes);
    report.cover("services_block_distinct_outcomes", outcomes);
    report.cover("services_block_max_sequence_length", max_len as u64);
    report.cover(
        "services_block_rule",
        "every snapshot sequence up to the bound x every pattern of settled/bursty pushes x every subset of probe positions, through the real membership watcher, \
         the store's watch_membership_changes task, the real distributor and the real replication_cycle loop of node 0; two complete host nodes at the two peer addresses",
    );
    report.guard_nonzero("guard_services_probes_with_live_peers", with_live);
    report.guard_nonzero("guard_services_probes_with_an_unused_address", unused);
    report.guard(outcomes > 4, "services block: more than four distinct probe outcomes");
    if irreproducible > 0 {
        report.machinery_error(format!("services block: {irreproducible} executions did not reproduce"));
    }
    report.assume("services block: the store's membership task exists before the first membership event and runs after every published change (the late/slow shapes are the known finding)");
}

pub fn replay(case: &J) -> i32 {
    let all = snapshots();
    let mut seq = Vec::new();
    for s in case.get("snapshots").and_then(|v| v.as_arr()).unwrap_or(&[]) {
        let mut p = Peers::new();
        for item in s.as_arr().unwrap_or(&[]) {
            if let Some((n, h)) = item.as_str().unwrap_or("").split_once("@host") {
                p.insert(n.parse().unwrap_or(1), h.parse().unwrap_or(1));
            }
        }
        match all.iter().position(|x| *x == p) {
            Some(i) => seq.push(i),
            None => return 2,
        }
    }
    if seq.is_empty() {
        return 2;
    }
    let sc = Scenario {
        seq,
        settle_mask: case.get("settle_mask").and_then(|v| v.as_u64()).unwrap_or(0) as u32,
        probe_mask: case.get("probe_mask").and_then(|v| v.as_u64()).unwrap_or(0) as u32,
    };
    let outs = crate::c13::block_on(execute(&all, &sc));
    let again = crate::c13::block_on(execute(&all, &sc));
    if outs != again {
        eprintln!("replay is not reproducible");
        return 2;
    }
    println!("{outs:#?}");
    let mut st = Stats::default();
    judge(&all, &sc, &outs, &mut st);
    for f in &st.found {
        println!("{}: {}", f.key, f.what);
    }
    (!st.found.is_empty()) as i32
}
