//! C09 — hybrid clock stamps are unique, strictly increasing and respect causality.
//!
//! Engine E1 (Layer A): breadth-first search over clock states of the real
//! `HLCTimestamp::send/recv`. A state is (packed clock value, greatest stamp issued or
//! accepted so far) — exactly what the oracle can observe about the past, so merging
//! states with equal keys is sound. Every transition picks a raw wall-clock reading
//! (through the H1 seam; stalls, 1–4 ms steps, backwards jumps, the drift boundary) and a
//! call: `send`, or `recv(m)` for every `m` of a grid positioned relative to the clock and
//! to the wall reading.

use std::collections::{HashMap, VecDeque};
use std::time::Duration;

use datacake_crdt::verif::{set_wall_clock, MAX_CLOCK_DRIFT};
use datacake_crdt::{HLCTimestamp, DATACAKE_EPOCH};
use vkit::{Report, Tier, J};

const OWN: u8 = 7;
const OTHER: u8 = 9;
/// Base wall reading as datacake time (seconds since DATACAKE_EPOCH).
const BASE: u64 = 50_000_000;

#[derive(Clone, Copy, Debug, PartialEq, Eq, Hash)]
enum Call {
    Send,
    Recv(HLCTimestamp),
}

#[derive(Clone, Copy, Debug)]
struct Step {
    wall_ms: i64, // offset from BASE in ms
    call: Call,
}

fn wall_offsets_ms() -> Vec<i64> {
    vec![
        0,
        1,
        3,
        4,
        1_000,
        -4,
        -1_000,
        -7_200_000,
        4_100_000,
        4_100_004,
    ]
}

fn wall_duration(off_ms: i64) -> Duration {
    let ms = (BASE as i64) * 1000 + off_ms;
    Duration::from_millis(ms as u64)
}

fn quantise(d: Duration) -> Duration {
    Duration::from_secs(d.as_secs()) + Duration::from_millis((d.subsec_millis() / 4 * 4) as u64)
}

fn messages(clock: HLCTimestamp, wall: Duration) -> Vec<HLCTimestamp> {
    let ct = clock.datacake_timestamp();
    let w = quantise(wall);
    let ms = Duration::from_millis;
    let mut times = vec![
        ct,
        ct.saturating_sub(Duration::from_secs(1)),
        ct + ms(4),
        ct + Duration::from_secs(1),
        w,
        w + MAX_CLOCK_DRIFT - ms(4),
        w + MAX_CLOCK_DRIFT,
        w + MAX_CLOCK_DRIFT + ms(4),
    ];
    times.sort();
    times.dedup();
    let mut out = Vec::new();
    for t in times {
        for c in [0u16, 1, 65534, 65535] {
            for n in [OWN, OTHER] {
                out.push(HLCTimestamp::new(t, c, n));
            }
        }
    }
    out
}

#[derive(Clone, Copy, Debug, PartialEq, Eq, Hash)]
struct State {
    clock: u64,
    newest_seen: u64, // greatest stamp issued or accepted so far (0 = none)
}

enum Outcome {
    Ok(HLCTimestamp),
    Err(String),
    Panic(String),
}

fn do_call(clock: &mut HLCTimestamp, wall: Duration, call: Call) -> Outcome {
    set_wall_clock(Some(wall + DATACAKE_EPOCH));
    let res = vkit::quiet::catch(|| match call {
        Call::Send => clock.send(),
        Call::Recv(m) => clock.recv(&m),
    });
    set_wall_clock(None);
    match res {
        Ok(Ok(v)) => Outcome::Ok(v),
        Ok(Err(e)) => Outcome::Err(format!("{e:?}")),
        Err(msg) => Outcome::Panic(msg),
    }
}

/// May this request legitimately fail? (remote too far ahead, same node id, clock itself
/// beyond the drift limit, counter exhausted.) Anything else refusing is a violation:
/// a clock that refuses everything would satisfy the other clauses vacuously.
fn refusal_justified(clock: HLCTimestamp, wall: Duration, call: Call) -> bool {
    let w = quantise(wall);
    let ct = clock.datacake_timestamp();
    match call {
        Call::Send => {
            let t = ct.max(w);
            t.saturating_sub(w) > MAX_CLOCK_DRIFT || (t == ct && clock.counter() == u16::MAX)
        },
        Call::Recv(m) => {
            let mt = m.datacake_timestamp();
            if m.node() == clock.node() {
                return true;
            }
            let t = ct.max(w).max(mt);
            if t.saturating_sub(w) > MAX_CLOCK_DRIFT {
                return true;
            }
            let from_clock = t == ct;
            let from_msg = t == mt;
            (from_clock && clock.counter() == u16::MAX) || (from_msg && m.counter() == u16::MAX)
        },
    }
}

fn step_json(s: &Step) -> J {
    let j = J::obj().set("wall_offset_ms", s.wall_ms);
    match s.call {
        Call::Send => j.set("call", "send"),
        Call::Recv(m) => j
            .set("call", "recv")
            .set("msg", m.to_string())
            .set("msg_u64", m.as_u64().to_string()),
    }
}

fn trace_json(init: HLCTimestamp, steps: &[Step]) -> J {
    J::obj()
        .set("initial_clock", init.to_string())
        .set("initial_clock_u64", init.as_u64().to_string())
        .set("steps", J::Arr(steps.iter().map(step_json).collect()))
}

pub fn run(tier: Tier) -> i32 {
    let mut report = Report::new("C09", tier, "model_checking");
    let depth = tier.pick(6, 14);
    let inits: Vec<HLCTimestamp> = [0u16, 65533, 65534, 65535]
        .iter()
        .map(|&c| HLCTimestamp::new(Duration::from_secs(BASE), c, OWN))
        .collect();

    // parent pointers for counterexample paths: state -> (parent state, step)
    let mut parent: HashMap<State, Option<(State, Step)>> = HashMap::new();
    let mut init_of: HashMap<State, HLCTimestamp> = HashMap::new();
    let mut queue: VecDeque<(State, usize)> = VecDeque::new();
    for i in &inits {
        let s = State {
            clock: i.as_u64(),
            newest_seen: 0,
        };
        parent.insert(s, None);
        init_of.insert(s, *i);
        queue.push_back((s, 0));
    }

    let path_to = |parent: &HashMap<State, Option<(State, Step)>>, mut s: State| -> (State, Vec<Step>) {
        let mut steps = Vec::new();
        while let Some(Some((p, st))) = parent.get(&s) {
            steps.push(*st);
            s = *p;
        }
        steps.reverse();
        (s, steps)
    };

    let mut transitions = 0u64;
    let (mut n_ok_send, mut n_ok_recv, mut n_err, mut n_counter_path, mut n_backwards, mut n_err_justified) =
        (0u64, 0u64, 0u64, 0u64, 0u64, 0u64);
    let mut max_depth = 0usize;
    let mut outcomes = std::collections::HashSet::new();

    while let Some((state, d)) = queue.pop_front() {
        max_depth = max_depth.max(d);
        if d == depth {
            continue;
        }
        let clock0 = HLCTimestamp::from_u64(state.clock);
        for off in wall_offsets_ms() {
            let wall = wall_duration(off);
            let mut calls = vec![Call::Send];
            calls.extend(messages(clock0, wall).into_iter().map(Call::Recv));
            for call in calls {
                transitions += 1;
                let mut clock = clock0;
                let out = do_call(&mut clock, wall, call);
                let step = Step { wall_ms: off, call };
                let violation = |report: &mut Report, key: &str, what: String| {
                    let (root, mut steps) = path_to(&parent, state);
                    steps.push(step);
                    let init = HLCTimestamp::from_u64(root.clock);
                    report.violation(key, || what, || trace_json(init, &steps));
                };
                let newest = state.newest_seen;
                if quantise(wall) < clock0.datacake_timestamp() {
                    n_backwards += 1;
                }
                match out {
                    Outcome::Panic(msg) => {
                        violation(&mut report, "panic", format!("call panicked: {msg}"));
                        continue;
                    },
                    Outcome::Err(e) => {
                        n_err += 1;
                        outcomes.insert(format!("err:{e}"));
                        if clock != clock0 {
                            violation(
                                &mut report,
                                "error-changed-the-clock",
                                format!("call failed with {e} but the clock went {clock0} -> {clock}"),
                            );
                        }
                        if refusal_justified(clock0, wall, call) {
                            n_err_justified += 1;
                        } else {
                            violation(
                                &mut report,
                                "refused-without-reason",
                                format!("call failed with {e} although it could be satisfied (clock {clock0})"),
                            );
                        }
                        continue;
                    },
                    Outcome::Ok(r) => {
                        let mut new_newest = newest;
                        match call {
                            Call::Send => {
                                n_ok_send += 1;
                                if r.counter() > 0 {
                                    n_counter_path += 1;
                                }
                                if r.as_u64() <= newest || r <= clock0 {
                                    violation(
                                        &mut report,
                                        "send-not-greater-than-earlier-stamps",
                                        format!(
                                            "send returned {r}, not greater than the newest stamp issued/accepted before ({}) / the clock {clock0}",
                                            HLCTimestamp::from_u64(newest)
                                        ),
                                    );
                                }
                                if r.node() != OWN {
                                    violation(&mut report, "send-wrong-node-id", format!("send returned {r}"));
                                }
                                if r.datacake_timestamp().saturating_sub(quantise(wall)) > MAX_CLOCK_DRIFT {
                                    violation(
                                        &mut report,
                                        "send-beyond-drift",
                                        format!("send returned {r}, more than the permitted drift ahead of the wall clock"),
                                    );
                                }
                                if clock != r {
                                    violation(
                                        &mut report,
                                        "send-result-is-not-the-clock",
                                        format!("send returned {r} but the clock is {clock}"),
                                    );
                                }
                                new_newest = new_newest.max(r.as_u64());
                            },
                            Call::Recv(m) => {
                                n_ok_recv += 1;
                                if m.node() == OWN {
                                    violation(
                                        &mut report,
                                        "recv-accepted-own-node-id",
                                        format!("recv accepted {m} carrying the clock's own node id"),
                                    );
                                }
                                if m.datacake_timestamp().saturating_sub(quantise(wall)) > MAX_CLOCK_DRIFT {
                                    violation(
                                        &mut report,
                                        "recv-accepted-beyond-drift",
                                        format!("recv accepted {m}, beyond the permitted drift"),
                                    );
                                }
                                if clock <= m {
                                    violation(
                                        &mut report,
                                        "clock-not-greater-than-accepted-stamp",
                                        format!("after accepting {m} the clock is {clock}"),
                                    );
                                }
                                if clock < clock0 || clock.as_u64() < newest {
                                    violation(
                                        &mut report,
                                        "clock-went-backwards",
                                        format!("recv moved the clock {clock0} -> {clock}"),
                                    );
                                }
                                if clock.node() != OWN {
                                    violation(&mut report, "clock-lost-its-node-id", format!("clock is {clock}"));
                                }
                                if clock.datacake_timestamp().saturating_sub(quantise(wall)) > MAX_CLOCK_DRIFT {
                                    violation(
                                        &mut report,
                                        "recv-pushed-clock-beyond-drift",
                                        format!("after accepting {m} the clock is {clock}"),
                                    );
                                }
                                new_newest = new_newest.max(m.as_u64());
                            },
                        }
                        outcomes.insert(format!(
                            "ok:{}:{}",
                            matches!(call, Call::Send),
                            clock.as_u64() as i128 - clock0.as_u64() as i128
                        ));
                        let next = State {
                            clock: clock.as_u64(),
                            newest_seen: new_newest,
                        };
                        if !parent.contains_key(&next) {
                            parent.insert(next, Some((state, step)));
                            queue.push_back((next, d + 1));
                        }
                    },
                }
            }
        }
    }

    // samples: a few actual paths
    let mut shown = 0;
    for (s, p) in parent.iter() {
        if p.is_some() && shown < 3 {
            let (root, steps) = path_to(&parent, *s);
            if steps.len() == depth.min(3) {
                report.sample(trace_json(HLCTimestamp::from_u64(root.clock), &steps));
                shown += 1;
            }
        }
    }
    if shown == 0 {
        report.sample(J::from("no full-depth path (search cut short)"));
    }

    report.cover("states", parent.len());
    report.cover("transitions", transitions);
    report.cover("traces_validated_against_impl", transitions);
    report.cover("evaluations", transitions);
    report.cover("distinct_nontrivial", outcomes.len());
    report.cover(
        "rule",
        "BFS over (clock, newest stamp issued/accepted); per state 10 wall readings x (send + recv of a 64-message \
         grid); distinct_nontrivial = distinct (result kind, clock delta) outcomes",
    );
    report.cover("depth", depth);
    report.cover("max_depth_reached", max_depth);
    report.cover("exhaustive", true);
    report.cover("ok_sends", n_ok_send);
    report.cover("ok_recvs", n_ok_recv);
    report.guard_nonzero("guard_sends_taking_the_counter_path", n_counter_path);
    report.guard_nonzero("guard_calls_with_wall_clock_behind_the_clock", n_backwards);
    report.guard_nonzero("guard_refused_calls", n_err);
    report.guard(n_err == n_err_justified || !report.violation_keys().is_empty(), "refusal bookkeeping");
    report.assume("wall readings and message stamps from the stated grids only; one clock, node ids 7 (own) and 9");
    report.assume("the wall clock is injected through the cfg(datacake_verif) seam in get_datacake_timestamp(); the 4 ms quantisation stays the real code");
    report.finish()
}

pub fn replay(case: &J) -> i32 {
    let Some(init) = case
        .get("initial_clock_u64")
        .and_then(|v| v.as_str())
        .and_then(|s| s.parse::<u64>().ok())
    else {
        return 2;
    };
    let mut clock = HLCTimestamp::from_u64(init);
    let mut newest = 0u64;
    let mut bad = false;
    for st in case.get("steps").and_then(|v| v.as_arr()).unwrap_or(&[]) {
        let off = st.get("wall_offset_ms").and_then(|v| v.as_i128()).unwrap_or(0) as i64;
        let wall = wall_duration(off);
        let call = if st.get("call").and_then(|v| v.as_str()) == Some("send") {
            Call::Send
        } else {
            let raw: u64 = st
                .get("msg_u64")
                .and_then(|v| v.as_str())
                .and_then(|s| s.parse().ok())
                .unwrap_or(0);
            Call::Recv(HLCTimestamp::from_u64(raw))
        };
        let before = clock;
        let out = do_call(&mut clock, wall, call);
        let (txt, ok) = match (&out, call) {
            (Outcome::Panic(m), _) => (format!("PANIC {m}"), false),
            (Outcome::Err(e), _) => (
                format!("Err({e})"),
                clock == before && refusal_justified(before, wall, call),
            ),
            (Outcome::Ok(r), Call::Send) => {
                let ok = r.as_u64() > newest
                    && *r > before
                    && r.node() == OWN
                    && *r == clock
                    && r.datacake_timestamp().saturating_sub(quantise(wall)) <= MAX_CLOCK_DRIFT;
                newest = newest.max(r.as_u64());
                (format!("Ok({r})"), ok)
            },
            (Outcome::Ok(_), Call::Recv(m)) => {
                let ok = clock > m && clock >= before && clock.as_u64() >= newest && m.node() != OWN;
                newest = newest.max(m.as_u64());
                (format!("Ok, clock={clock}"), ok)
            },
        };
        bad |= !ok;
        println!(
            "wall=base{:+}ms {:?} on clock {} -> {} {}",
            off,
            call,
            before,
            txt,
            if ok { "" } else { "<-- VIOLATES" }
        );
    }
    bad as i32
}
