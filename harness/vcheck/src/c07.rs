//! C07 — a restarted node rebuilds exactly what storage holds; acknowledged writes survive.
//!
//! Engine E1 by replay with crash-point enumeration (Layer B, one node, two keyspaces).
//! For every request history of the alphabet (breadth-first, deduplicated by the node's
//! whole state) and EVERY crash point — after the last request, and inside each possible
//! next request between the storage write and the in-memory update (the storage wrapper
//! parks the call after the inner write; for bulk calls after each k) — the node is
//! abandoned, a fresh `KeyspaceGroup` is built on the same storage, the real
//! `load_states_from_storage` runs, and the rebuilt sets are compared with what storage
//! holds for every keyspace storage lists. The restarted node then accepts one more
//! request and must still agree with its store (C02's oracle).
//!
//! Thorough tier: the same on file-backed SQLite and LMDB with a real close (the whole
//! runtime of the first life is dropped) and reopen.

use std::collections::BTreeMap;
use std::path::PathBuf;
use std::sync::Arc;

use datacake_crdt::{HLCTimestamp, Key};
use datacake_eventual_consistency::test_utils::MemStore;
use datacake_eventual_consistency::verif as ec;
use datacake_eventual_consistency::Storage;
use datacake_lmdb::LmdbStorage;
use datacake_node::Clock;
use datacake_sqlite::SqliteStorage;
use vkit::bfs::{bfs_replay, BfsCfg};
use vkit::e2::settle;
use vkit::{fp128, par, Report, Stats, Tier, J};

use crate::c02::{self, payload_for, Req, Step};
use crate::crdt::*;
use crate::stores::{read_rows, Fault, FaultStore, MapStore};
use crate::world::{decode_set, Wall};

const KEYSPACES: [&str; 2] = ["ks", "other"];

#[derive(Clone, Debug, PartialEq, Eq, Hash)]
struct KStep {
    ks: usize,
    step: Step,
}

fn kstep_json(pool: &[Op], s: &KStep) -> J {
    c02::history_json(pool, std::slice::from_ref(&s.step), "")
        .get("requests")
        .and_then(|r| r.as_arr().map(|a| a[0].clone()))
        .unwrap_or(J::Null)
        .set("keyspace", KEYSPACES[s.ks])
}

fn case_json(pool: &[Op], store: &str, history: &[KStep], crash: &str, in_flight: Option<&KStep>) -> J {
    let mut j = J::obj()
        .set("store", store)
        .set("requests", J::Arr(history.iter().map(|s| kstep_json(pool, s)).collect()))
        .set("crash_point", crash);
    if let Some(s) = in_flight {
        j.put("request_in_flight", kstep_json(pool, s));
    }
    j
}

fn alphabet(pool: &[Op], thorough: bool) -> Vec<KStep> {
    let mut out = Vec::new();
    for (i, op) in pool.iter().enumerate() {
        let req = if op.del { Req::Del { op: i, src: 0 } } else { Req::Set { op: i, src: 0 } };
        out.push(KStep { ks: 0, step: Step { req: req.clone(), fault: Fault::None } });
        if i % 3 == 0 || thorough {
            // the repair source and the second keyspace, thinned in quick
            let req1 = if op.del { Req::Del { op: i, src: 1 } } else { Req::Set { op: i, src: 1 } };
            out.push(KStep { ks: 0, step: Step { req: req1, fault: Fault::None } });
            out.push(KStep { ks: 1, step: Step { req, fault: Fault::None } });
        }
    }
    // bulk requests: what put_many / del_many / a distributor batch / a repair produce,
    // including two ids carrying the very same stamp and the same id twice
    let pairs: Vec<(Vec<usize>, bool)> = {
        let mut v = Vec::new();
        let find = |key: u64, mins: u64, del: bool| pool.iter().position(|o| o.key == key && o.del == del && o.ts == ts_min(mins, 0, 1));
        if let (Some(a), Some(b)) = (find(1, 200, false), find(2, 200, false)) {
            v.push((vec![a, b], false)); // same stamp, two ids (put_many)
        }
        if let (Some(a), Some(b)) = (find(1, 50, true), find(2, 50, true)) {
            v.push((vec![a, b], true)); // same stamp, two ids (del_many)
        }
        v.push((vec![0, 2], false)); // same id twice, ascending
        v.push((vec![2, 0], false)); // same id twice, descending
        v.push((vec![0, 1], false));
        v.push((vec![3, 5], true));
        v
    };
    for (ops, del) in pairs {
        for ks in 0..2 {
            if ks == 1 && !thorough {
                continue;
            }
            let req = if del { Req::MultiDel { ops: ops.clone(), src: 0 } } else { Req::MultiSet { ops: ops.clone(), src: 0 } };
            out.push(KStep { ks, step: Step { req, fault: Fault::None } });
        }
    }
    // bulk calls failing part-way: only a prefix written, or everything but the first
    // document (successes that are not a prefix of the batch); the same request may then be
    // delivered again and acknowledged (added after the seeded change C07-f)
    for (ops, del) in [(vec![0usize, 1], false), (vec![3usize, 5], true)] {
        for fault in [Fault::FailOnly(0), Fault::FailAfter(1)] {
            let req = if del { Req::MultiDel { ops: ops.clone(), src: 0 } } else { Req::MultiSet { ops: ops.clone(), src: 0 } };
            out.push(KStep { ks: 0, step: Step { req, fault } });
        }
    }
    out.push(KStep { ks: 0, step: Step { req: Req::Purge, fault: Fault::None } });
    // transient storage failures: the request is answered with an error and may be re-delivered
    for i in [0usize, 2, 3, 6] {
        if let Some(op) = pool.get(i) {
            let req = if op.del { Req::Del { op: i, src: 0 } } else { Req::Set { op: i, src: 0 } };
            out.push(KStep { ks: 0, step: Step { req, fault: Fault::FailBefore } });
        }
    }
    out
}

/// Ids whose little-endian byte order (LMDB) and signed order (SQLite) differ from their
/// numeric order.
fn wide_pool() -> Vec<Op> {
    const BIG: u64 = (1 << 63) + 1;
    vec![
        Op::ins(1, ts_min(0, 0, 1)),
        Op::ins(256, ts_min(1, 0, 1)),
        Op::ins(BIG, ts_min(2, 0, 1)),
        Op::ins(65536, ts_min(3, 0, 1)),
        Op::del(256, ts_min(10, 0, 1)),
        Op::del(BIG, ts_min(11, 0, 1)),
        Op::del(1, ts_min(12, 0, 1)),
        Op::del(65536, ts_min(13, 0, 1)),
        Op::ins(257, ts_min(14, 0, 1)),
        // 9..=12: one id rewritten and deleted at stamps whose seconds have a different number
        // of decimal digits (SQLite stores the stamp as text; added after C07-h)
        Op::ins(7, HLCTimestamp::new(std::time::Duration::from_secs(99_999_990), 0, 1)),
        Op::ins(7, HLCTimestamp::new(std::time::Duration::from_secs(100_000_020), 0, 1)),
        Op::del(7, HLCTimestamp::new(std::time::Duration::from_secs(100_000_050), 0, 1)),
        Op::ins(8, HLCTimestamp::new(std::time::Duration::from_secs(99_999_995), 0, 1)),
    ]
}

/// Park points inside a request: after how many documents of the storage call.
fn park_points(s: &KStep) -> Vec<usize> {
    match &s.step.req {
        Req::Set { .. } | Req::Del { .. } => vec![1],
        Req::MultiSet { ops, .. } | Req::MultiDel { ops, .. } => (1..=ops.len()).collect(),
        Req::Purge => vec![1],
    }
}

type Rows = BTreeMap<Key, (HLCTimestamp, Option<Vec<u8>>)>;
/// Serialised keyspace sets of the first life, by keyspace name.
type PreSets = BTreeMap<String, Vec<u8>>;

/// Builds a fresh group on `store`, loads it, and compares every listed keyspace.
async fn restart_and_compare<S: Storage>(
    store: Arc<S>,
    pool: &[Op],
    st: &mut Stats,
    case: &dyn Fn() -> J,
    crash_kind: &str,
    pre_sets: Option<&PreSets>,
) -> Option<(ec::KeyspaceGroup<S>, BTreeMap<String, Rows>)> {
    let clock = Clock::new(9);
    let group = ec::KeyspaceGroup::new(store.clone(), clock).await;
    if let Err(e) = group.load_states_from_storage().await {
        st.violation(&format!("restart-failed/{crash_kind}"), || format!("load_states_from_storage: {e}"), case);
        return None;
    }
    let listed = match store.get_keyspace_list().await {
        Ok(l) => l,
        Err(e) => {
            st.violation("keyspace-list-failed", || e.to_string(), case);
            return None;
        },
    };
    let mut all_rows = BTreeMap::new();
    for ks_name in KEYSPACES {
        let rows = match read_rows(store.as_ref(), ks_name).await {
            Ok(r) => r,
            Err(e) => {
                st.violation("storage-unreadable", || e.clone(), case);
                return None;
            },
        };
        if !rows.is_empty() && !listed.iter().any(|l| l == ks_name) {
            st.violation(
                "keyspace-with-rows-not-listed",
                || format!("storage holds rows for {ks_name:?} but lists {listed:?}"),
                case,
            );
        }
        all_rows.insert(ks_name.to_string(), rows);
    }
    for ks_name in &listed {
        st.inc("keyspaces_compared");
        let rows = all_rows.get(ks_name).cloned().unwrap_or_default();
        let mailbox = group.get_or_create_keyspace(ks_name).await;
        let set = match mailbox.send(ec::Serialize).await.map_err(|e| e.to_string()).and_then(|b| decode_set(&b)) {
            Ok(s) => s,
            Err(e) => {
                st.violation("rebuilt-set-unreadable", || e.clone(), case);
                continue;
            },
        };
        let snap = set.verif_snapshot();
        let rows_live: Vec<(Key, HLCTimestamp)> = rows.iter().filter(|(_, (_, d))| d.is_some()).map(|(k, (t, _))| (*k, *t)).collect();
        let rows_dead: Vec<(Key, HLCTimestamp)> = rows.iter().filter(|(_, (_, d))| d.is_none()).map(|(k, (t, _))| (*k, *t)).collect();
        let fmt = |v: &Vec<(Key, HLCTimestamp)>| v.iter().map(|(k, t)| format!("{k}@{t}")).collect::<Vec<_>>().join(" ");
        if snap.entries != rows_live {
            let shape = if snap.entries.len() < rows_live.len() { "live-ids-missing" } else { "live-ids-differ" };
            st.violation(
                &format!("rebuilt-set-differs-from-storage/{shape}/{crash_kind}"),
                || format!("keyspace {ks_name:?}: rebuilt set holds live [{}], storage holds documents [{}]", fmt(&snap.entries), fmt(&rows_live)),
                case,
            );
        }
        if snap.dead != rows_dead {
            let shape = if snap.dead.len() < rows_dead.len() { "tombstones-missing" } else { "tombstones-differ" };
            st.violation(
                &format!("rebuilt-set-differs-from-storage/{shape}/{crash_kind}"),
                || format!("keyspace {ks_name:?}: rebuilt set holds tombstones [{}], storage records [{}]", fmt(&snap.dead), fmt(&rows_dead)),
                case,
            );
        }
        // a restart must not make the node refuse what it would have applied before it
        // stopped ("converges with its peers as in C01": repair traffic for writes it has
        // missed is decided by will_apply): between requests the rebuilt set holds the same
        // rows as the old one, so every pool operation the old set would apply, the
        // rebuilt one must apply too. C01 speaks about operations within one forgiveness
        // period of each other, so only probes within one hour of everything the node has
        // seen count (a restart may legitimately forget or tighten what lies further back).
        if let Some(pre) = pre_sets.and_then(|p| p.get(ks_name.as_str())).and_then(|b| decode_set(b).ok()) {
            let pre_snap = pre.verif_snapshot();
            let seen: Vec<u64> = pre_snap
                .entries
                .iter()
                .chain(pre_snap.dead.iter())
                .map(|(_, t)| t.seconds())
                .chain(pre_snap.max_stamps.iter().flatten().map(|(_, t)| t.seconds()))
                .collect();
            if pre_snap.entries == snap.entries && pre_snap.dead == snap.dead {
                for op in pool {
                    let lo = seen.iter().copied().chain([op.ts.seconds()]).min().unwrap_or(0);
                    let hi = seen.iter().copied().chain([op.ts.seconds()]).max().unwrap_or(0);
                    if hi - lo >= 3590 {
                        st.inc("acceptance_probes_outside_one_forgiveness_period");
                        continue;
                    }
                    st.inc("acceptance_probes");
                    if pre.will_apply(op.key, op.ts) && !set.will_apply(op.key, op.ts) {
                        st.violation(
                            &format!("restart-made-the-node-refuse-an-operation/{crash_kind}"),
                            || format!("keyspace {ks_name:?}: before the restart the node would apply {} key {} at {}, after rebuilding from storage it refuses it (cut-offs before {:?}, after {:?})", if op.del { "delete" } else { "insert" }, op.key, op.ts, pre_snap.safe_stamps, snap.safe_stamps),
                            case,
                        );
                        break;
                    }
                }
            }
        }
        for (id, (ts, data)) in &rows {
            if let Some(d) = data {
                let expect = pool.iter().find(|o| o.key == *id && o.ts == *ts && !o.del).map(payload_for);
                if expect.as_deref() != Some(d.as_slice()) {
                    st.violation("stored-bytes-belong-to-another-write", || format!("keyspace {ks_name:?} id {id}"), case);
                }
            }
        }
    }
    Some((group, all_rows))
}

/// First life of the node: replays `history`, optionally starts one more request that
/// parks inside storage. Returns the fingerprint of the live node's state.
async fn first_life<I>(
    pool: &[Op],
    store: Arc<FaultStore<I>>,
    history: &[KStep],
    in_flight: Option<(&KStep, usize)>,
) -> Result<(u128, PreSets), String>
where
    I: Storage,
    I::Error: std::fmt::Display,
{
    let clock = Clock::new(9);
    let group = ec::KeyspaceGroup::new(store.clone(), clock).await;
    group.load_states_from_storage().await.map_err(|e| e.to_string())?;
    let mut acked: Vec<(usize, u64, datacake_crdt::HLCTimestamp)> = Vec::new();
    for s in history {
        let ks = group.get_or_create_keyspace(KEYSPACES[s.ks]).await;
        store.plan([s.step.fault]);
        let reply = c02::send_request(&ks, pool, &s.step.req).await;
        store.plan([]);
        if reply.is_ok() {
            let ops: Vec<usize> = match &s.step.req {
                Req::Set { op, .. } | Req::Del { op, .. } => vec![*op],
                Req::MultiSet { ops, .. } | Req::MultiDel { ops, .. } => ops.clone(),
                Req::Purge => vec![],
            };
            for o in ops {
                acked.push((s.ks, pool[o].key, pool[o].ts));
            }
        }
    }
    // every acknowledged mutation must be durable (a restart rebuilds from storage only):
    // storage holds the id at that stamp or a newer one, unless the stamp lies behind the
    // origin's cut-off (then it was legitimately ignored, or purged since)
    // only the newest acknowledged mutation of an id can be expected in storage: an older
    // one was superseded, and the superseding tombstone may itself have been purged since
    let mut newest: BTreeMap<(usize, u64), datacake_crdt::HLCTimestamp> = BTreeMap::new();
    for (ksi, id, ts) in &acked {
        let e = newest.entry((*ksi, *id)).or_insert(*ts);
        if *ts > *e {
            *e = *ts;
        }
    }
    let acked: Vec<(usize, u64, datacake_crdt::HLCTimestamp)> = newest.into_iter().map(|((k, i), t)| (k, i, t)).collect();
    for (ksi, id, ts) in &acked {
        // ... and as what it was: an acknowledged put whose stamp the row carries must be a
        // live document with that put's bytes, an acknowledged delete a tombstone (a restart
        // rebuilds live entries and tombstones from exactly this answer)
        {
            let name = KEYSPACES[*ksi];
            let rows = read_rows(store.as_ref(), name).await?;
            let kinds: Vec<bool> = pool.iter().filter(|o| o.key == *id && o.ts == *ts).map(|o| o.del).collect();
            if let (Some((t, data)), [del]) = (rows.get(id), kinds.as_slice()) {
                if t == ts {
                    let expect = pool.iter().find(|o| o.key == *id && o.ts == *ts && !o.del).map(c02::payload_for);
                    let ok = if *del { data.is_none() } else { data.as_deref() == expect.as_deref() };
                    if !ok {
                        return Err(format!(
                            "ACK-NOT-DURABLE keyspace {name:?}: the acknowledged {} of id {id} at {ts} is reported by storage as {}",
                            if *del { "delete" } else { "put" },
                            match data {
                                None => "a tombstone".to_string(),
                                Some(d) => format!("a live document of {} bytes", d.len()),
                            }
                        ));
                    }
                }
            }
        }
        let name = KEYSPACES[*ksi];
        let rows = read_rows(store.as_ref(), name).await?;
        let ks = group.get_or_create_keyspace(name).await;
        let set = ks.send(ec::Serialize).await.map_err(|e| e.to_string()).and_then(|b| decode_set(&b))?;
        let snap = set.verif_snapshot();
        let behind_cutoff = snap.safe_stamps.iter().any(|(n, s)| *n == ts.node() && ts < s);
        let durable = rows.get(id).map_or(false, |(t, _)| t >= ts);
        if !durable && !behind_cutoff {
            return Err(format!(
                "ACK-NOT-DURABLE keyspace {name:?}: the request for id {id} at {ts} was acknowledged but storage holds {:?}",
                rows.get(id).map(|(t, d)| (t.to_string(), d.is_some()))
            ));
        }
    }
    let mut fp = Vec::new();
    for name in KEYSPACES {
        let ks = group.get_or_create_keyspace(name).await;
        let obs = c02::observe(&ks, store.as_ref(), pool).await?;
        // observe() reads the keyspace "ks" rows only; add this keyspace's own rows
        let rows = read_rows(store.as_ref(), name).await?;
        fp.push((obs.live, obs.dead, obs.versions, rows));
    }
    // the sets as they are at the end of the history (before any in-flight request)
    let mut pre_sets = PreSets::new();
    for name in KEYSPACES {
        let ks = group.get_or_create_keyspace(name).await;
        let bytes = ks.send(ec::Serialize).await.map_err(|e| e.to_string())?;
        pre_sets.insert(name.to_string(), bytes);
    }
    if let Some((s, k)) = in_flight {
        store.plan([Fault::ParkAfter(k)]);
        let ks = group.get_or_create_keyspace(KEYSPACES[s.ks]).await;
        let pool2 = pool.to_vec();
        let req = s.step.req.clone();
        // the request never returns: run it as a task and abandon it
        let task = tokio::task::spawn_local(async move {
            let _ = c02::send_request(&ks, &pool2, &req).await;
        });
        // the storage call may run on the backend's own thread: wait (in real time) until
        // it has done its writes and parked, or until the request ended without touching
        // storage; only then is this the crash point the case says it is
        let started = std::time::Instant::now();
        loop {
            settle().await;
            if store.has_parked() || task.is_finished() {
                break;
            }
            if started.elapsed() > std::time::Duration::from_secs(30) {
                return Err("HARNESS in-flight request neither parked nor finished within 30 s".to_string());
            }
            std::thread::sleep(std::time::Duration::from_micros(50));
        }
        task.abort();
        store.plan([]);
    }
    Ok((fp128(&fp), pre_sets))
}

async fn execute_in_memory<I>(
    pool: &[Op],
    al: &[KStep],
    store_name: &'static str,
    inner: Arc<I>,
    history: &[KStep],
    st: &mut Stats,
) -> Option<u128>
where
    I: Storage,
    I::Error: std::fmt::Display,
{
    let local = tokio::task::LocalSet::new();
    local
        .run_until(async {
            let _wall = Wall::start();
            let store = Arc::new(FaultStore::new(inner));
            let (fp, pre_sets) = match first_life(pool, store.clone(), history, None).await {
                Ok(x) => x,
                Err(e) => {
                    let key = if e.starts_with("ACK-NOT-DURABLE") { "acknowledged-mutation-not-in-storage" } else if e.starts_with("HARNESS") { "harness/first-life" } else { "first-life-failed" };
                    st.violation(key, || e.clone(), || case_json(pool, store_name, history, "would be lost by a restart at any later point", None));
                    return None;
                },
            };
            // crash point 1: after the last request
            st.inc("crash_points");
            st.inc("crash_points_between_requests");
            let case = || case_json(pool, store_name, history, "after the last request", None);
            if let Some((group, _rows)) = restart_and_compare(store.clone(), pool, st, &case, "between-requests", Some(&pre_sets)).await {
                // the restarted node keeps working: one more request, then C02's agreement
                if let Some(next) = al.get(history.len() % al.len()) {
                    let ks = group.get_or_create_keyspace(KEYSPACES[next.ks]).await;
                    let _ = c02::send_request(&ks, pool, &next.step.req).await;
                    let name = KEYSPACES[next.ks];
                    let rows = read_rows(store.as_ref(), name).await.unwrap_or_default();
                    if let Ok(set) = ks.send(ec::Serialize).await.map_err(|e| e.to_string()).and_then(|b| decode_set(&b)) {
                        let snap = set.verif_snapshot();
                        let live: Vec<_> = rows.iter().filter(|(_, (_, d))| d.is_some()).map(|(k, (t, _))| (*k, *t)).collect();
                        let dead: Vec<_> = rows.iter().filter(|(_, (_, d))| d.is_none()).map(|(k, (t, _))| (*k, *t)).collect();
                        if snap.entries != live || snap.dead != dead {
                            st.violation(
                                "restarted-node-disagrees-with-its-store-after-next-request",
                                || format!("after restart and request {:?}: set live {:?} dead {:?}, store live {:?} dead {:?}", next.step.req, snap.entries, snap.dead, live, dead),
                                || case_json(pool, store_name, history, "after the last request, then one more request", Some(next)),
                            );
                        }
                    }
                }
            }
            Some(fp)
        })
        .await
}

/// Crash points inside a request need a fresh first life each (the parked actor is lost).
async fn execute_mid_request<I>(
    pool: &[Op],
    store_name: &'static str,
    inner: Arc<I>,
    history: &[KStep],
    next: &KStep,
    k: usize,
    st: &mut Stats,
) where
    I: Storage,
    I::Error: std::fmt::Display,
{
    let local = tokio::task::LocalSet::new();
    local
        .run_until(async {
            let _wall = Wall::start();
            let store = Arc::new(FaultStore::new(inner));
            if let Err(e) = first_life(pool, store.clone(), history, Some((next, k))).await {
                st.violation(if e.starts_with("HARNESS") { "harness/first-life" } else { "first-life-failed" }, || e.clone(), || case_json(pool, store_name, history, "-", Some(next)));
                return;
            }
            let parked = store.log().last().map_or(false, |l| matches!(l.fault, Fault::ParkAfter(_)));
            if !parked {
                // the request did not reach storage (refused by will_apply): no crash point
                st.inc("in_flight_requests_that_never_reached_storage");
                return;
            }
            st.inc("crash_points");
            st.inc("crash_points_inside_a_request");
            let crash = format!("inside the request, after storage wrote {k} document(s) and before the set was updated");
            let case = || case_json(pool, store_name, history, &crash, Some(next));
            restart_and_compare(store.clone(), pool, st, &case, "inside-a-request", None).await;
        })
        .await
}

fn explore<I, F>(store_name: &'static str, make_inner: F, pool: &[Op], al: &[KStep], depth: usize, max_states: usize) -> (Stats, vkit::bfs::BfsSummary)
where
    I: Storage,
    I::Error: std::fmt::Display,
    F: Fn() -> Arc<I> + Sync,
{
    let cfg = BfsCfg { max_depth: depth, max_states };
    let (mut total, sum) = bfs_replay(
        &cfg,
        |_h: &[KStep]| al.to_vec(),
        |h, st| vkit::e2::block_on_fresh(execute_in_memory(pool, al, store_name, make_inner(), h, st)),
    );
    // crash points inside a request: for every history up to depth-1 of a thinned set (all
    // histories of length <= 1, plus every history the BFS kept as a distinct state would be
    // ideal; histories are re-enumerated here up to length 2) and every possible next request
    let mut work: Vec<(Vec<KStep>, KStep, usize)> = Vec::new();
    let mut hists: Vec<Vec<KStep>> = vec![vec![]];
    for a in al {
        hists.push(vec![a.clone()]);
    }
    if depth >= 3 {
        for a in al.iter().step_by(3) {
            for b in al.iter().step_by(2) {
                hists.push(vec![a.clone(), b.clone()]);
            }
        }
    }
    for h in &hists {
        for next in al {
            for k in park_points(next) {
                work.push((h.clone(), next.clone(), k));
            }
        }
    }
    let parts = par::par_map(&work, |_, (h, next, k)| {
        let mut st = Stats::default();
        vkit::e2::block_on_fresh(execute_mid_request(pool, store_name, make_inner(), h, next, *k, &mut st));
        st
    });
    for p in parts {
        total.merge(p);
    }
    (total, sum)
}

// ------------------------------------------------------------------ persistent backends (thorough)

fn scratch_dir(tag: &str, n: usize) -> PathBuf {
    let base = vkit::scratch_base();
    let p = base.join(format!("verif-c07-{}-{tag}-{n}", std::process::id()));
    let _ = std::fs::remove_dir_all(&p);
    std::fs::create_dir_all(&p).expect("scratch dir");
    p
}

fn persistent_case(pool: &[Op], backend: &'static str, n: usize, history: &[KStep], in_flight: Option<(&KStep, usize)>, st: &mut Stats) {
    let dir = scratch_dir(backend, n);
    // first life in its own runtime; dropping the runtime kills every task and closes the store
    let mut lmdb_env = None;
    let first = vkit::e2::block_on_fresh(async {
        let local = tokio::task::LocalSet::new();
        local
            .run_until(async {
                let _wall = Wall::start();
                if backend == "sqlite-file" {
                    let inner = Arc::new(SqliteStorage::open(dir.join("db.sqlite")).await.expect("open sqlite"));
                    first_life(pool, Arc::new(FaultStore::new(inner)), history, in_flight).await.map(|x| x.1)
                } else {
                    let inner = Arc::new(LmdbStorage::open(&dir).await.expect("open lmdb"));
                    lmdb_env = Some(inner.handle().env().clone());
                    first_life(pool, Arc::new(FaultStore::new(inner)), history, in_flight).await.map(|x| x.1)
                }
            })
            .await
    });
    if let Some(env) = lmdb_env.take() {
        // every handle died with the runtime, so the worker thread is on its way out; the
        // environment is closed only once that thread is gone (see c17.rs, Lmdb::close)
        datacake_lmdb::verif::join_worker(env.path());
        env.prepare_for_closing().wait();
    } else {
        std::thread::sleep(std::time::Duration::from_millis(2));
    }
    let pre_sets = match first {
        Ok(p) => Some(p),
        Err(e) => {
            st.violation(
                if e.starts_with("HARNESS") {
                    "harness/first-life"
                } else if e.starts_with("ACK-NOT-DURABLE") {
                    "acknowledged-mutation-not-in-storage"
                } else {
                    "first-life-failed"
                },
                || e.clone(),
                || case_json(pool, backend, history, "-", in_flight.map(|x| x.0)),
            );
            let _ = std::fs::remove_dir_all(&dir);
            return;
        },
    };
    st.inc("crash_points");
    st.inc("real_reopens");
    let crash = match in_flight {
        None => "after the last request (process stopped, database reopened)".to_string(),
        Some((_, k)) => format!("inside the request after storage wrote {k} document(s) (process stopped, database reopened)"),
    };
    let mut env_again = None;
    vkit::e2::block_on_fresh(async {
        let _wall = Wall::start();
        let case = || case_json(pool, backend, history, &crash, in_flight.map(|x| x.0));
        let kind = if in_flight.is_some() { "inside-a-request" } else { "between-requests" };
        if backend == "sqlite-file" {
            let store = Arc::new(SqliteStorage::open(dir.join("db.sqlite")).await.expect("reopen sqlite"));
            restart_and_compare(store, pool, st, &case, kind, if in_flight.is_none() { pre_sets.as_ref() } else { None }).await;
        } else {
            let store = Arc::new(LmdbStorage::open(&dir).await.expect("reopen lmdb"));
            env_again = Some(store.handle().env().clone());
            restart_and_compare(store, pool, st, &case, kind, if in_flight.is_none() { pre_sets.as_ref() } else { None }).await;
        }
    });
    if let Some(env) = env_again.take() {
        datacake_lmdb::verif::join_worker(env.path());
        env.prepare_for_closing().wait();
    }
    let _ = std::fs::remove_dir_all(&dir);
}

pub fn run(tier: Tier) -> i32 {
    let mut report = Report::new("C07", tier, "fault_enumeration");
    let pool = c02::pool();
    let al = alphabet(&pool, tier.is_thorough());
    let mut total = Stats::default();
    let mut runs = Vec::new();

    let depth = tier.pick(4, 5);
    let cap = tier.pick(30_000, 300_000);
    let (st, sum) = explore("harness map store", || Arc::new(MapStore::default()), &pool, &al, depth, cap);
    runs.push(J::obj().set("store", "harness map store").set("states", sum.states).set("histories", sum.transitions).set("depth", sum.depth_reached).set("state_cap", cap).set("state_cap_hit", sum.state_cap_hit).set("complete_to_depth", if sum.state_cap_hit { sum.depth_reached.saturating_sub(1) } else { sum.depth_reached }));
    total.merge(st);
    let (st, sum2) = explore("MemStore", || Arc::new(MemStore::default()), &pool, &al, depth, cap);
    runs.push(J::obj().set("store", "MemStore").set("states", sum2.states).set("histories", sum2.transitions).set("depth", sum2.depth_reached).set("state_cap", cap).set("state_cap_hit", sum2.state_cap_hit).set("complete_to_depth", if sum2.state_cap_hit { sum2.depth_reached.saturating_sub(1) } else { sum2.depth_reached }));
    total.merge(st);

    if tier.is_thorough() {
        // persistent backends: histories of length <= 2 over a thinned alphabet, every crash point
        let thin: Vec<KStep> = al.iter().step_by(2).cloned().collect();
        let mut work: Vec<(&'static str, Vec<KStep>, Option<(KStep, usize)>)> = Vec::new();
        for backend in ["sqlite-file", "lmdb"] {
            let mut hists: Vec<Vec<KStep>> = vec![vec![]];
            for a in &thin {
                hists.push(vec![a.clone()]);
                for b in thin.iter().step_by(3) {
                    hists.push(vec![a.clone(), b.clone()]);
                }
            }
            for h in hists {
                work.push((backend, h.clone(), None));
                for next in thin.iter().step_by(2) {
                    for k in park_points(next) {
                        work.push((backend, h.clone(), Some((next.clone(), k))));
                    }
                }
            }
        }
        let idx: Vec<usize> = (0..work.len()).collect();
        let parts = par::par_map(&idx, |_, &i| {
            let (backend, h, inflight) = &work[i];
            let mut st = Stats::default();
            persistent_case(&pool, backend, i, h, inflight.as_ref().map(|(s, k)| (s, *k)), &mut st);
            st
        });
        for p in parts {
            total.merge(p);
        }
        runs.push(J::obj().set("store", "sqlite-file + lmdb (real close and reopen)").set("cases", work.len()));
    }

    // persistent backends, ids whose byte order differs from their numeric order (both tiers):
    // LMDB compares keys bytewise and SQLite as signed integers, so a rebuild that walks the
    // tables in "id order" meets 256 before 1 and 2^63+1 before everything (added after C07-g)
    {
        let wide = wide_pool();
        let set = |op: usize| KStep { ks: 0, step: Step { req: Req::Set { op, src: 0 }, fault: Fault::None } };
        let del = |op: usize| KStep { ks: 0, step: Step { req: Req::Del { op, src: 0 }, fault: Fault::None } };
        let mut work: Vec<(&'static str, Vec<KStep>, Option<(KStep, usize)>)> = Vec::new();
        for backend in ["sqlite-file", "lmdb"] {
            for mask in 0u32..16 {
                let mut h: Vec<KStep> = vec![set(0), set(1), set(2), set(3)];
                for b in 0..4 {
                    if mask & (1 << b) != 0 {
                        h.push(del(4 + b));
                    }
                }
                work.push((backend, h.clone(), None));
                if tier.is_thorough() {
                    // the same with a bulk put, and with a further request in flight at the stop
                    let mut hb = vec![KStep { ks: 0, step: Step { req: Req::MultiSet { ops: vec![3, 2, 1, 0], src: 0 }, fault: Fault::None } }];
                    hb.extend(h[4..].iter().cloned());
                    work.push((backend, hb, None));
                    for next in [del(4), del(7), set(8)] {
                        work.push((backend, h.clone(), Some((next, 1))));
                    }
                }
            }
        }
        for backend in ["sqlite-file", "lmdb"] {
            // (these stamps lie 99 million seconds after the others: on their own keyspace
            // history so that the forgiveness window of node 1 is not involved)
            for h in [vec![set(9), set(10)], vec![set(9), del(11)], vec![set(9), set(12), set(10), del(11)], vec![set(12), set(9), set(10)]] {
                work.push((backend, h, None));
            }
        }
        let idx: Vec<usize> = (0..work.len()).collect();
        let parts = par::par_map_capped(&idx, 4, |_, &i| {
            let (backend, h, inflight) = &work[i];
            let mut st = Stats::default();
            persistent_case(&wide, backend, 100_000 + i, h, inflight.as_ref().map(|(s, k)| (s, *k)), &mut st);
            st.inc("wide_id_cases");
            st
        });
        for p in parts {
            total.merge(p);
        }
        runs.push(J::obj().set("store", "sqlite-file + lmdb (real close and reopen), ids {1, 256, 65536, 2^63+1}").set("cases", work.len()));
    }

    total.sample(|| case_json(&pool, "harness map store", &[al[1].clone(), al[al.len() - 2].clone()], "after the last request", None));
    total.sample(|| case_json(&pool, "MemStore", &[al[0].clone()], "inside the request, after storage wrote 1 document(s) and before the set was updated", Some(&al[al.len() - 3])));
    let crash_points = total.get("crash_points");
    let inside = total.get("crash_points_inside_a_request");
    let between = total.get("crash_points_between_requests");
    let compared = total.get("keyspaces_compared");
    total.flush_into(&mut report);
    report.cover("evaluations", crash_points);
    report.cover("distinct_nontrivial", sum.states + sum2.states + inside);
    report.cover(
        "rule",
        "histories enumerated breadth-first (deduplicated by the node's whole state: both keyspaces' sets and rows); \
         crash point after every history, and inside every possible next request after each document of its storage \
         call; each crash point = abandon the node, fresh KeyspaceGroup on the same storage, real load_states_from_storage, \
         compare with storage; distinct_nontrivial = distinct pre-crash states + in-request crash points",
    );
    report.cover("runs", J::Arr(runs));
    report.cover("alphabet_size", al.len());
    report.cover("exhaustive", !(sum.state_cap_hit || sum2.state_cap_hit));
    if sum.state_cap_hit || sum2.state_cap_hit {
        report.cover("cap_note", "the state cap was reached in the last BFS layer: every history up to complete_to_depth is covered, the last layer only in part");
    }
    report.guard_nonzero("guard_crash_points_inside_a_request", inside);
    report.guard_nonzero("guard_crash_points_between_requests", between);
    report.guard_nonzero("guard_keyspaces_compared", compared);
    report.assume("a crash is modelled at storage-call granularity: between requests, and after storage has durably written k documents of a call but before the actor updated its set; torn writes inside the storage engine are not modelled");
    report.assume("convergence of the restarted node with its peers is part of C01's exploration (restart event)");
    report.finish()
}

pub fn replay(case: &J) -> i32 {
    // the wide-id block has its own operation pool (every history there writes id 256)
    let text = case.to_string_compact();
    let pool = if text.contains("\"key\":256") { wide_pool() } else { c02::pool() };
    let parse = |j: &J| -> Option<KStep> {
        let step = c02::step_from_json(j)?;
        let ks = KEYSPACES.iter().position(|k| Some(*k) == j.get("keyspace").and_then(|v| v.as_str())).unwrap_or(0);
        Some(KStep { ks, step })
    };
    let history: Vec<KStep> = case.get("requests").and_then(|v| v.as_arr()).unwrap_or(&[]).iter().filter_map(parse).collect();
    let in_flight = case.get("request_in_flight").and_then(parse);
    let store = case.get("store").and_then(|v| v.as_str()).unwrap_or("");
    let crash = case.get("crash_point").and_then(|v| v.as_str()).unwrap_or("");
    // "... after storage wrote k document(s) ..."
    let k: usize = crash
        .split("wrote ")
        .nth(1)
        .and_then(|r| r.split_whitespace().next())
        .and_then(|n| n.parse().ok())
        .unwrap_or(1);
    let al = alphabet(&pool, true);
    let mut st = Stats::default();
    match (store, &in_flight) {
        ("sqlite-file", _) | ("lmdb", _) => {
            let backend: &'static str = if store == "lmdb" { "lmdb" } else { "sqlite-file" };
            persistent_case(&pool, backend, 999_999, &history, in_flight.as_ref().map(|s| (s, k)), &mut st);
        },
        ("MemStore", None) => {
            vkit::e2::block_on_fresh(execute_in_memory(&pool, &al, "MemStore", Arc::new(MemStore::default()), &history, &mut st));
        },
        ("MemStore", Some(next)) => {
            vkit::e2::block_on_fresh(execute_mid_request(&pool, "MemStore", Arc::new(MemStore::default()), &history, next, k, &mut st));
        },
        (_, None) => {
            vkit::e2::block_on_fresh(execute_in_memory(&pool, &al, "harness map store", Arc::new(MapStore::default()), &history, &mut st));
        },
        (_, Some(next)) => {
            vkit::e2::block_on_fresh(execute_mid_request(&pool, "harness map store", Arc::new(MapStore::default()), &history, next, k, &mut st));
        },
    }
    println!("store {store:?}, {} request(s), crash point: {crash}", history.len());
    for f in &st.found {
        println!("{}: {}", f.key, f.what);
    }
    (!st.found.is_empty()) as i32
}
