//! C15 — replica selection yields enough distinct live peers or reports too few.
//!
//! Engine E1. *Pure level*: for every data-centre layout up to the bound and every
//! position of the local node, breadth-first search to closure over the cursor-state graph
//! of the real `DCAwareSelector` + `NodeCycler`s: transitions are `select_nodes(level)` for
//! all eight levels and, where the selector draws random numbers, every outcome of every
//! draw (scripted RNG, H4). *Actor level*: the real selector actor is driven through
//! `set_nodes(L1) · selections · set_nodes(L2) · selections` for pairs of small layouts.

use std::borrow::Cow;
use std::collections::{BTreeMap, BTreeSet, VecDeque};
use std::net::SocketAddr;

use datacake_node::verif::{script_rng, set_nodes, start_node_selector, unscript_rng, NodeCycler};
use datacake_node::{Consistency, ConsistencyError, DCAwareSelector, NodeSelector, Nodes};
use vkit::{par, Report, Stats, Tier, J};

use crate::c13::block_on;

const LEVELS: [Consistency; 8] = [
    Consistency::None,
    Consistency::One,
    Consistency::Two,
    Consistency::Three,
    Consistency::Quorum,
    Consistency::LocalQuorum,
    Consistency::All,
    Consistency::EachQuorum,
];

fn addr(dc: usize, node: usize) -> SocketAddr {
    SocketAddr::from(([10, dc as u8, 0, node as u8], 80))
}

fn dc_name(dc: usize) -> Cow<'static, str> {
    Cow::Owned(format!("dc-{dc}"))
}

/// A layout: for every data centre the list of node indices present (indices, not counts,
/// so that the actor-level check can drop individual nodes).
type Layout = BTreeMap<usize, Vec<usize>>;

fn layout_from_sizes(sizes: &[usize]) -> Layout {
    sizes.iter().enumerate().map(|(d, n)| (d, (0..*n).collect())).collect()
}

fn layout_json(l: &Layout) -> J {
    J::Arr(
        l.iter()
            .map(|(d, ns)| J::from(format!("dc-{d}:{ns:?}")))
            .collect(),
    )
}

fn all_sizes(max_dcs: usize, max_nodes: usize) -> Vec<Vec<usize>> {
    let mut out: Vec<Vec<usize>> = vec![];
    let mut cur: Vec<Vec<usize>> = vec![vec![]];
    for _ in 0..max_dcs {
        cur = cur
            .into_iter()
            .flat_map(|s| {
                (1..=max_nodes).map(move |n| {
                    let mut t = s.clone();
                    t.push(n);
                    t
                })
            })
            .collect();
        out.extend(cur.clone());
    }
    out
}

fn members(l: &Layout) -> BTreeSet<SocketAddr> {
    l.iter().flat_map(|(d, ns)| ns.iter().map(move |n| addr(*d, *n))).collect()
}

fn dc_of(a: &SocketAddr) -> usize {
    match a {
        SocketAddr::V4(v) => v.ip().octets()[1] as usize,
        _ => 0,
    }
}

/// How many *other* nodes the level requires, and (for the per-DC levels) how many per DC.
fn need(level: Consistency, l: &Layout, local_dc: usize) -> (usize, BTreeMap<usize, usize>) {
    let total: usize = l.values().map(|v| v.len()).sum();
    let n_local = l.get(&local_dc).map(|v| v.len()).unwrap_or(0);
    let mut per_dc = BTreeMap::new();
    let n = match level {
        Consistency::None => 0,
        Consistency::One => 1,
        Consistency::Two => 2,
        Consistency::Three => 3,
        Consistency::Quorum => total / 2,
        Consistency::LocalQuorum => {
            per_dc.insert(local_dc, n_local / 2);
            n_local / 2
        },
        Consistency::All => total - 1,
        Consistency::EachQuorum => {
            let mut sum = 0;
            for (d, ns) in l {
                let m = if *d == local_dc { ns.len() / 2 } else { ns.len() / 2 + 1 };
                per_dc.insert(*d, m);
                sum += m;
            }
            sum
        },
    };
    (n, per_dc)
}

/// Evaluates one selection result against the property. Returns (clause, text) on failure.
fn judge(
    level: Consistency,
    l: &Layout,
    local: SocketAddr,
    res: &Result<Nodes, ConsistencyError>,
) -> Option<(&'static str, String)> {
    let live = members(l);
    let local_dc = dc_of(&local);
    let others = live.len() - 1;
    let (required, per_dc) = need(level, l, local_dc);
    match res {
        Ok(v) => {
            let set: BTreeSet<SocketAddr> = v.iter().copied().collect();
            if set.len() != v.len() {
                return Some(("duplicate-node-selected", format!("{level:?} selected {v:?}")));
            }
            if set.contains(&local) {
                return Some(("local-node-selected", format!("{level:?} selected the local node: {v:?}")));
            }
            if let Some(stranger) = set.iter().find(|a| !live.contains(a)) {
                return Some((
                    "non-member-selected",
                    format!("{level:?} selected {stranger} which is not a live member"),
                ));
            }
            let exact = matches!(level, Consistency::One | Consistency::Two | Consistency::Three);
            if v.len() < required || (exact && v.len() != required) {
                return Some((
                    "wrong-number-selected",
                    format!("{level:?} needs {}{required} other node(s) but selected {} : {v:?}", if exact { "exactly " } else { ">= " }, v.len()),
                ));
            }
            for (d, m) in per_dc {
                let got = set.iter().filter(|a| dc_of(a) == d).count();
                if got < m {
                    return Some((
                        "per-dc-majority-not-met",
                        format!("{level:?} needs {m} node(s) of dc-{d} but selected {got}: {v:?}"),
                    ));
                }
            }
            None
        },
        Err(ConsistencyError::NotEnoughNodes { .. }) => {
            if others >= required {
                Some((
                    "not-enough-nodes-although-enough-exist",
                    format!("{level:?} reported NotEnoughNodes although {others} other live node(s) exist and {required} are required"),
                ))
            } else {
                None
            }
        },
        Err(e) => Some(("unexpected-error", format!("{level:?} failed with {e:?}"))),
    }
}

// ------------------------------------------------------------------ pure level

fn cursor_of(c: &NodeCycler) -> usize {
    let d = format!("{c:?}");
    let i = d.find("cursor: ").expect("NodeCycler Debug has a cursor") + 8;
    d[i..].chars().take_while(|c| c.is_ascii_digit()).collect::<String>().parse().unwrap()
}

fn build_cyclers(l: &Layout, cursors: &[usize]) -> BTreeMap<Cow<'static, str>, NodeCycler> {
    let mut m = BTreeMap::new();
    for ((d, ns), c) in l.iter().zip(cursors) {
        let nodes: Nodes = ns.iter().map(|n| addr(*d, *n)).collect();
        let mut cyc = NodeCycler::from(nodes);
        for _ in 0..*c {
            cyc.next();
        }
        m.insert(dc_name(*d), cyc);
    }
    m
}

fn read_cursors(l: &Layout, m: &BTreeMap<Cow<'static, str>, NodeCycler>) -> Vec<usize> {
    l.iter()
        .map(|(d, ns)| cursor_of(&m[&dc_name(*d)]) % ns.len())
        .collect()
}

/// The raw RNG outputs used per draw: evenly spaced over the u32 range, so that every
/// outcome of a bounded draw with range <= 8 is produced.
fn raw_draws() -> Vec<u32> {
    // rand 0.8 maps a raw u32 `v` onto 0..r as the high word of v*r and rejects it when
    // the low word exceeds a zone; floor(k*2^32/r)+1 yields outcome k for range r with a
    // tiny low word, so it is never rejected. The set below does that for r = 2, 3, 4.
    // A raw value rejected for some other range just makes the draw continue with the
    // next script element (or 0 once the script is exhausted).
    let third = ((1u64 << 32) / 3) as u32;
    vec![0, (1 << 30) + 1, third + 1, (1u32 << 31) + 1, 2 * third + 2, 3 * (1 << 30) + 1]
}

fn scripts(draws: usize) -> Vec<Vec<u32>> {
    let mut out = vec![vec![]];
    for _ in 0..draws {
        out = out
            .into_iter()
            .flat_map(|s: Vec<u32>| {
                raw_draws().into_iter().map(move |r| {
                    let mut t = s.clone();
                    t.push(r);
                    t
                })
            })
            .collect();
    }
    out
}

fn pure_case(l: &Layout, local: SocketAddr, path: &[(Consistency, Vec<u32>)]) -> J {
    J::obj()
        .set("level", "pure")
        .set("layout", layout_json(l))
        .set("layout_sizes", l.values().map(|v| v.len()).collect::<Vec<_>>())
        .set("local", local.to_string())
        .set("local_pos", vec![dc_of(&local), match local { SocketAddr::V4(v) => v.ip().octets()[3] as usize, _ => 0 }])
        .set(
            "selections",
            J::Arr(
                path.iter()
                    .map(|(lv, s)| J::obj().set("consistency", format!("{lv:?}")).set("rng", s.clone()))
                    .collect(),
            ),
        )
}

fn explore_pure(l: &Layout, local: SocketAddr, st: &mut Stats) {
    let local_dc_name = dc_name(dc_of(&local));
    let total: usize = l.values().map(|v| v.len()).sum();
    let start: Vec<usize> = vec![0; l.len()];
    let mut parent: BTreeMap<Vec<usize>, Option<(Vec<usize>, Consistency, Vec<u32>)>> = BTreeMap::new();
    parent.insert(start.clone(), None);
    let mut queue = VecDeque::from([start]);
    let path_to = |parent: &BTreeMap<Vec<usize>, Option<(Vec<usize>, Consistency, Vec<u32>)>>, s: &Vec<usize>| {
        let mut p = Vec::new();
        let mut cur = s.clone();
        while let Some(Some((prev, lv, sc))) = parent.get(&cur) {
            p.push((*lv, sc.clone()));
            cur = prev.clone();
        }
        p.reverse();
        p
    };
    while let Some(state) = queue.pop_front() {
        st.inc("states");
        for level in LEVELS {
            // first run: how many random draws does this call make from this state?
            let mut probe = build_cyclers(l, &state);
            script_rng(vec![]);
            let _ = DCAwareSelector.select_nodes(local, &local_dc_name, total, &mut probe, level);
            let draws = unscript_rng();
            if draws > 0 {
                st.inc("calls_with_random_draws");
            }
            for script in scripts(draws) {
                let mut cyclers = build_cyclers(l, &state);
                script_rng(script.clone());
                let res = vkit::quiet::catch(|| {
                    DCAwareSelector.select_nodes(local, &local_dc_name, total, &mut cyclers, level)
                });
                let consumed = unscript_rng();
                st.inc("transitions");
                let case = |st_path: Vec<(Consistency, Vec<u32>)>| {
                    let mut p = st_path;
                    p.push((level, script.clone()));
                    pure_case(l, local, &p)
                };
                let res = match res {
                    Err(p) => {
                        st.violation("selector-panicked", || format!("select_nodes({level:?}) panicked: {p}"), || case(path_to(&parent, &state)));
                        continue;
                    },
                    Ok(r) => r,
                };
                if consumed < draws {
                    st.violation(
                        "harness/fewer-draws-than-predicted",
                        || format!("predicted at least {draws} draws, saw {consumed}"),
                        || case(path_to(&parent, &state)),
                    );
                }
                if draws > 0 {
                    if let Ok(v) = &res {
                        let mut key = v.to_vec();
                        key.sort();
                        st.seen("random_outcomes", vkit::fp128(&(l, local, &state, format!("{level:?}"), key)));
                    }
                }
                match &res {
                    Ok(_) => st.inc("selections_ok"),
                    Err(_) => st.inc("selections_refused"),
                }
                if let Some((clause, text)) = judge(level, l, local, &res) {
                    let fresh = state.iter().all(|c| *c == 0);
                    let shape = format!(
                        "{}/{}",
                        if l.len() == 1 { "single-dc" } else { "multi-dc" },
                        if fresh { "fresh-cursors" } else { "advanced-cursors" }
                    );
                    st.violation(&format!("{clause}/{shape}"), || text.clone(), || case(path_to(&parent, &state)));
                }
                let next = read_cursors(l, &cyclers);
                if !parent.contains_key(&next) {
                    parent.insert(next.clone(), Some((state.clone(), level, script)));
                    queue.push_back(next);
                }
            }
        }
    }
}

// ------------------------------------------------------------------ actor level

fn to_dc_map(l: &Layout) -> BTreeMap<Cow<'static, str>, Nodes> {
    l.iter()
        .map(|(d, ns)| (dc_name(*d), ns.iter().map(|n| addr(*d, *n)).collect::<Nodes>()))
        .collect()
}

fn small_layouts(thorough: bool) -> Vec<Layout> {
    // subsets of a small universe that contain the local node (dc 0, node 0)
    let universe: Vec<(usize, usize)> = if thorough {
        vec![(0, 0), (0, 1), (0, 2), (1, 0), (1, 1), (2, 0), (2, 1), (3, 0)]
    } else {
        vec![(0, 0), (0, 1), (1, 0), (1, 1), (2, 0), (2, 1)]
    };
    let mut out = Vec::new();
    for mask in 0u32..(1 << universe.len()) {
        if mask & 1 == 0 {
            continue;
        }
        let mut l: Layout = BTreeMap::new();
        for (i, (d, n)) in universe.iter().enumerate() {
            if mask & (1 << i) != 0 {
                l.entry(*d).or_default().push(*n);
            }
        }
        out.push(l);
    }
    out
}

fn actor_case(l1: &Layout, pre: &[Consistency], l2: &Layout, post: &[(Consistency, Vec<u32>)]) -> J {
    J::obj()
        .set("level", "actor")
        .set("first_layout", layout_json(l1))
        .set("selections_before_update", pre.iter().map(|c| format!("{c:?}")).collect::<Vec<_>>())
        .set("second_layout", layout_json(l2))
        .set(
            "selections_after_update",
            J::Arr(
                post.iter()
                    .map(|(lv, s)| J::obj().set("consistency", format!("{lv:?}")).set("rng", s.clone()))
                    .collect(),
            ),
        )
}

async fn actor_run(l1: &Layout, pre: &[Consistency], l2: &Layout, st: &mut Stats) {
    let local = addr(0, 0);
    // For every level after the update, enumerate the outcomes of its random draws.
    for level in LEVELS {
        // discover the number of draws with an empty script on a fresh actor
        let mut draws = 0;
        let mut pass = 0;
        let mut all_scripts = vec![vec![]];
        while pass < all_scripts.len() {
            let script = all_scripts[pass].clone();
            let selector = start_node_selector(local, dc_name(0), DCAwareSelector).await;
            set_nodes(&selector, to_dc_map(l1)).await;
            script_rng(vec![]);
            for lv in pre {
                let _ = selector.get_nodes(*lv).await;
            }
            unscript_rng();
            set_nodes(&selector, to_dc_map(l2)).await;
            script_rng(script.clone());
            let res = selector.get_nodes(level).await;
            // a second call must be served consistently too (cache or recomputation)
            let again = selector.get_nodes(level).await;
            let consumed = unscript_rng();
            if pass == 0 {
                draws = consumed;
                if draws > 0 && draws <= 3 {
                    all_scripts = scripts(draws);
                }
            }
            st.inc("actor_runs");
            st.inc("transitions");
            for (which, r) in [("first", &res), ("repeated", &again)] {
                if let Some((clause, text)) = judge(level, l2, local, r) {
                    let dropped_dc = l1.keys().any(|d| !l2.contains_key(d));
                    let shape = if dropped_dc { "after-a-dc-left" } else if members(l1) != members(l2) { "after-nodes-changed" } else { "same-layout" };
                    st.violation(
                        &format!("actor/{clause}/{shape}"),
                        || format!("{which} call after the update: {text}"),
                        || actor_case(l1, pre, l2, &[(level, script.clone())]),
                    );
                }
            }
            pass += 1;
        }
    }
}

pub fn run(tier: Tier) -> i32 {
    let mut report = Report::new("C15", tier, "model_checking");
    let (max_dcs, max_nodes) = tier.pick((3, 3), (4, 5));

    // ---- pure level
    let mut work: Vec<(Layout, SocketAddr)> = Vec::new();
    for sizes in all_sizes(max_dcs, max_nodes) {
        let l = layout_from_sizes(&sizes);
        for (d, ns) in &l {
            for n in ns {
                work.push((l.clone(), addr(*d, *n)));
            }
        }
    }
    let parts = par::par_map(&work, |_, (l, local)| {
        let mut st = Stats::default();
        explore_pure(l, *local, &mut st);
        st.inc("layout_positions");
        st
    });
    let mut total = Stats::default();
    for p in parts {
        total.merge(p);
    }
    if let Some((l, local)) = work.get(work.len() / 2) {
        total.sample(|| pure_case(l, *local, &[(Consistency::Two, vec![])]));
    }

    // ---- actor level
    let layouts = small_layouts(tier.is_thorough());
    let pres: Vec<Vec<Consistency>> = {
        let mut v: Vec<Vec<Consistency>> = vec![vec![]];
        for a in [Consistency::One, Consistency::Two, Consistency::All, Consistency::EachQuorum] {
            v.push(vec![a]);
            if tier.is_thorough() {
                for b in [Consistency::One, Consistency::Three] {
                    v.push(vec![a, b]);
                }
            }
        }
        v
    };
    let mut pairs: Vec<(Layout, Layout)> = Vec::new();
    for l1 in &layouts {
        for l2 in &layouts {
            pairs.push((l1.clone(), l2.clone()));
        }
    }
    let parts = par::par_map(&pairs, |_, (l1, l2)| {
        let mut st = Stats::default();
        block_on(async {
            for pre in &pres {
                actor_run(l1, pre, l2, &mut st).await;
            }
        });
        st.inc("actor_layout_pairs");
        st
    });
    for p in parts {
        total.merge(p);
    }
    if let Some((l1, l2)) = pairs.get(pairs.len() / 3) {
        total.sample(|| actor_case(l1, &[Consistency::One], l2, &[(Consistency::All, vec![])]));
    }

    let states = total.get("states");
    let transitions = total.get("transitions");
    let positions = total.get("layout_positions");
    let random = total.get("calls_with_random_draws");
    let refused = total.get("selections_refused");
    let ok = total.get("selections_ok");
    let actor_runs = total.get("actor_runs");
    total.flush_into(&mut report);
    report.cover("states", states);
    report.cover("transitions", transitions);
    report.cover("traces_validated_against_impl", transitions);
    report.cover("evaluations", transitions);
    report.cover("distinct_nontrivial", states);
    report.cover(
        "rule",
        "pure level: per (layout, local position) BFS to closure over cursor vectors, 8 levels x every RNG outcome per \
         state; actor level: all ordered pairs of sub-layouts of a 6-node (quick) / 8-node 4-DC (thorough) universe containing the local node, with 0-2 \
         selections before the update and every level (and RNG outcome) after it; states = cursor states summed over layouts",
    );
    report.cover("max_layout", format!("{max_dcs} data centres x {max_nodes} nodes"));
    report.cover("exhaustive", true);
    report.guard_nonzero("guard_layout_positions", positions);
    report.guard_nonzero("guard_calls_with_random_draws", random);
    report.guard(
        report.cover_get("distinct_random_outcomes") > random,
        "scripted random draws did not produce more than one outcome per call on average",
    );
    report.guard_nonzero("guard_selections_refused", refused);
    report.guard_nonzero("guard_selections_ok", ok);
    report.guard_nonzero("guard_actor_runs", actor_runs);
    report.assume("the local node is always a member of the layout (every snapshot the membership layer produces contains it)");
    report.assume("random draws are scripted with 8 evenly spaced raw values per draw, which yields every outcome of a draw whose range is <= 8 (ranges here are <= 4)");
    report.assume("the actor's 2 s result cache uses real time; an execution takes microseconds, so repeated calls inside one execution hit the cache");
    report.finish()
}

pub fn replay(case: &J) -> i32 {
    let parse_level = |s: &str| LEVELS.iter().copied().find(|l| format!("{l:?}") == s);
    let parse_layout = |j: &J| -> Layout {
        let mut l = Layout::new();
        for e in j.as_arr().unwrap_or(&[]) {
            // "dc-1:[0, 1]"
            let t = e.as_str().unwrap_or("");
            let (d, rest) = t.trim_start_matches("dc-").split_once(':').unwrap_or(("0", "[]"));
            let ns: Vec<usize> = rest
                .trim_matches(|c| c == '[' || c == ']')
                .split(',')
                .filter_map(|x| x.trim().parse().ok())
                .collect();
            l.insert(d.parse().unwrap_or(0), ns);
        }
        l
    };
    let sel = |j: &J| -> Vec<(Consistency, Vec<u32>)> {
        j.as_arr()
            .unwrap_or(&[])
            .iter()
            .filter_map(|e| {
                let lv = parse_level(e.get("consistency")?.as_str()?)?;
                let rng = e.get("rng")?.as_arr()?.iter().filter_map(|v| v.as_u64().map(|x| x as u32)).collect();
                Some((lv, rng))
            })
            .collect()
    };
    if case.get("level").and_then(|v| v.as_str()) == Some("pure") {
        let l = parse_layout(case.get("layout").unwrap_or(&J::Null));
        let pos = case.get("local_pos").and_then(|v| v.as_arr()).map(|a| (a[0].as_u64().unwrap_or(0) as usize, a[1].as_u64().unwrap_or(0) as usize)).unwrap_or((0, 0));
        let local = addr(pos.0, pos.1);
        let total: usize = l.values().map(|v| v.len()).sum();
        let mut cyclers = build_cyclers(&l, &vec![0; l.len()]);
        let mut bad = false;
        for (lv, rng) in sel(case.get("selections").unwrap_or(&J::Null)) {
            script_rng(rng);
            let res = DCAwareSelector.select_nodes(local, &dc_name(pos.0), total, &mut cyclers, lv);
            unscript_rng();
            let verdict = judge(lv, &l, local, &res);
            println!("{lv:?} -> {res:?} {}", verdict.as_ref().map(|v| format!("<-- VIOLATES: {}", v.1)).unwrap_or_default());
            bad |= verdict.is_some();
        }
        return bad as i32;
    }
    let l1 = parse_layout(case.get("first_layout").unwrap_or(&J::Null));
    let l2 = parse_layout(case.get("second_layout").unwrap_or(&J::Null));
    let pre: Vec<Consistency> = case
        .get("selections_before_update")
        .and_then(|v| v.as_arr())
        .unwrap_or(&[])
        .iter()
        .filter_map(|s| parse_level(s.as_str()?))
        .collect();
    let mut st = Stats::default();
    block_on(actor_run(&l1, &pre, &l2, &mut st));
    for f in &st.found {
        println!("{}: {}", f.key, f.what);
    }
    (!st.found.is_empty()) as i32
}
