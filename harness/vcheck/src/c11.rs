//! C11 — the node clock serialises concurrent callers: no duplicate or regressing stamps.
//!
//! Engine E2 on the real `datacake_node::Clock` actor: k client tasks, each a short
//! program of `get_time` / `register_ts(r)` calls with scheduling points in between, are
//! explored over all await-point interleavings (k = 2 unbounded, k = 3 up to a deviation
//! bound), for three wall-clock behaviours injected through H1.

use std::cell::RefCell;
use std::rc::Rc;
use std::time::Duration;

use datacake_crdt::verif::{set_wall_clock, MAX_CLOCK_DRIFT};
use datacake_crdt::{HLCTimestamp, DATACAKE_EPOCH};
use datacake_node::Clock;
use vkit::e2::{self, Client, DriveCfg, ExploreCfg, Run};
use vkit::{fp128, Report, Stats, Tier, J};

const OWN: u8 = 3;
const PEER: u8 = 8;
const BASE: u64 = 60_000_000; // datacake seconds

#[derive(Clone, Copy, Debug, PartialEq, Eq, Hash)]
enum Call {
    Get,
    /// register_ts of a stamp `ahead_ms` ahead of the base wall reading, from `node`.
    Reg { ahead_ms: u64, counter: u16, node: u8 },
    /// `n` get_time calls issued at once by one task (n = the capacity of the clock's request
    /// queue saturates it: what "however many tasks" means for a bounded queue)
    Flood(usize),
    /// a get_time whose future is polled once (the request is queued) and then dropped, as a
    /// timeout or a `select!` does; no stamp is received
    CancelledGet,
}

fn remote(c: Call) -> Option<HLCTimestamp> {
    match c {
        Call::Get | Call::Flood(_) | Call::CancelledGet => None,
        Call::Reg { ahead_ms, counter, node } => Some(HLCTimestamp::new(
            Duration::from_secs(BASE) + Duration::from_millis(ahead_ms),
            counter,
            node,
        )),
    }
}

const R_SAME_TICK: Call = Call::Reg { ahead_ms: 0, counter: 900, node: PEER };
const R_AHEAD: Call = Call::Reg { ahead_ms: 1_000, counter: 0, node: PEER };
const R_FAR: Call = Call::Reg { ahead_ms: 4_000_000, counter: 5, node: PEER };
const R_BEYOND: Call = Call::Reg { ahead_ms: 5_000_000, counter: 0, node: PEER };
const R_OWN: Call = Call::Reg { ahead_ms: 2_000, counter: 0, node: OWN };
// counters in the clock actor's back-pressure region (>= 65525): the actor sleeps 1 ms after
// serving; far enough from 65535 that the few calls of a program cannot overflow it
const R_SAME_TICK_HIGH: Call = Call::Reg { ahead_ms: 0, counter: 65_527, node: PEER };
const R_AHEAD_HIGH: Call = Call::Reg { ahead_ms: 5_000, counter: 65_527, node: PEER };

fn programs(thorough: bool) -> Vec<Vec<Call>> {
    let mut v = vec![
        vec![Call::Get, Call::Get],
        vec![R_AHEAD, Call::Get],
        vec![R_SAME_TICK, Call::Get],
        vec![Call::Get, R_FAR, Call::Get],
        vec![R_BEYOND, Call::Get],
        vec![R_OWN, Call::Get],
        vec![R_AHEAD_HIGH, Call::Get],
        vec![R_SAME_TICK_HIGH, Call::Get, Call::Get],
        vec![Call::CancelledGet, R_AHEAD, Call::Get],
        vec![Call::CancelledGet, Call::Get],
    ];
    if thorough {
        v.push(vec![Call::Get, Call::Get, Call::Get]);
        v.push(vec![R_AHEAD, R_FAR, Call::Get]);
        v.push(vec![R_FAR, Call::Get, R_AHEAD, Call::Get]);
    }
    v
}

#[derive(Clone, Copy, Debug, PartialEq, Eq, Hash)]
enum Wall {
    Stall,
    Tick4ms,
    Jumpy,
}

fn wall_at(mode: Wall, step: usize) -> Duration {
    let base = Duration::from_secs(BASE) + DATACAKE_EPOCH;
    match mode {
        Wall::Stall => base,
        Wall::Tick4ms => base + Duration::from_millis(4 * step as u64),
        // forwards 4 ms, back a second, stall, forwards ...
        Wall::Jumpy => match step % 3 {
            0 => base + Duration::from_millis(4 * step as u64),
            1 => base - Duration::from_secs(1),
            _ => base,
        },
    }
}

#[derive(Clone, Debug, PartialEq, Eq, Hash)]
struct Rec {
    task: usize,
    idx: usize,
    call: Call,
    start: u64,
    end: u64,
    result: Option<u64>,
}

type Obs = Vec<Rec>;

fn run_one(progs: &[Vec<Call>], mode: Wall, prefix: &[usize]) -> (Run, Obs) {
    set_wall_clock(Some(wall_at(mode, 0)));
    // fine-grained: the clock actor is a background task; letting callers run while it still
    // has queued work is what puts several requests into its mailbox at once
    let out = e2::block_on_fresh_fine(async {
        let clock = Clock::new(OWN);
        let log: Rc<RefCell<(u64, Vec<Rec>)>> = Rc::new(RefCell::new((0, Vec::new())));
        let clients: Vec<Option<Client>> = progs
            .iter()
            .enumerate()
            .map(|(task, prog)| {
                let clock = clock.clone();
                let log = log.clone();
                let prog = prog.clone();
                Some(Box::pin(async move {
                    for (idx, call) in prog.into_iter().enumerate() {
                        if idx > 0 {
                            e2::point().await;
                        }
                        let start = {
                            let mut l = log.borrow_mut();
                            l.0 += 1;
                            l.0
                        };
                        if let Call::Flood(n) = call {
                            let all = futures::future::join_all((0..n).map(|_| clock.get_time())).await;
                            let mut l = log.borrow_mut();
                            l.0 += 1;
                            let end = l.0;
                            for (i, ts) in all.into_iter().enumerate() {
                                l.1.push(Rec { task, idx: idx * 100_000 + i, call: Call::Get, start, end, result: Some(ts.as_u64()) });
                            }
                            continue;
                        }
                        if call == Call::CancelledGet {
                            {
                                let mut f = Box::pin(clock.get_time());
                                let _ = futures::poll!(f.as_mut());
                            }
                            let mut l = log.borrow_mut();
                            l.0 += 1;
                            let end = l.0;
                            l.1.push(Rec { task, idx, call, start, end, result: None });
                            continue;
                        }
                        let result = match call {
                            Call::Flood(_) | Call::CancelledGet => unreachable!(),
                            Call::Get => Some(clock.get_time().await.as_u64()),
                            Call::Reg { .. } => {
                                clock.register_ts(remote(call).unwrap()).await;
                                None
                            },
                        };
                        let mut l = log.borrow_mut();
                        l.0 += 1;
                        let end = l.0;
                        l.1.push(Rec { task, idx, call, start, end, result });
                    }
                }) as Client)
            })
            .collect();
        let on_step = move |step: usize| set_wall_clock(Some(wall_at(mode, step + 1)));
        let cfg = DriveCfg { on_step: Some(&on_step), interleave_background: true, ..DriveCfg::default() };
        let run = e2::drive(clients, prefix, &cfg).await;
        let mut obs = log.borrow().1.clone();
        obs.sort_by_key(|r| (r.task, r.idx));
        (run, obs)
    });
    set_wall_clock(None);
    out
}

fn case_json(progs: &[Vec<Call>], mode: Wall, run: &Run) -> J {
    J::obj()
        .set(
            "programs",
            J::Arr(
                progs
                    .iter()
                    .map(|p| J::Arr(p.iter().map(|c| J::from(format!("{c:?}"))).collect()))
                    .collect(),
            ),
        )
        .set("program_ids", J::Null)
        .set("wall", format!("{mode:?}"))
        .set("schedule", run.choices.clone())
        .set("ran", run.ran.clone())
}

fn judge(progs: &[Vec<Call>], mode: Wall, run: &Run, obs: &Obs, st: &mut Stats) {
    let rank = (run.deviations() as u64) << 32 | run.choices.len() as u64;
    let case = || case_json(progs, mode, run);
    st.inc("executions");
    if run.deadlocked {
        st.violation_ranked("deadlock", rank, || "clients never finished".to_string(), case);
        return;
    }
    let expected: usize = progs.iter().flatten().map(|c| if let Call::Flood(n) = c { *n } else { 1 }).sum();
    if obs.len() != expected {
        st.violation_ranked("harness/calls-missing", rank, || format!("{} of {expected} calls completed", obs.len()), case);
        return;
    }
    // pairwise distinct
    let mut stamps: Vec<(u64, usize, usize)> = obs.iter().filter_map(|r| r.result.map(|s| (s, r.task, r.idx))).collect();
    stamps.sort();
    for w in stamps.windows(2) {
        if w[0].0 == w[1].0 {
            st.violation_ranked(
                "duplicate-stamp",
                rank,
                || format!("tasks {} and {} both received {}", w[0].1, w[1].1, HLCTimestamp::from_u64(w[0].0)),
                case,
            );
        }
    }
    // per task strictly increasing
    for t in 0..progs.len() {
        let mine: Vec<u64> = obs.iter().filter(|r| r.task == t).filter_map(|r| r.result).collect();
        if mine.windows(2).any(|w| w[1] <= w[0]) {
            st.violation_ranked(
                "stamps-not-increasing-within-a-task",
                rank,
                || format!("task {t} saw {:?}", mine.iter().map(|s| HLCTimestamp::from_u64(*s).to_string()).collect::<Vec<_>>()),
                case,
            );
        }
    }
    // a stamp requested after a registration returned is greater than the registered stamp
    for reg in obs.iter().filter(|r| matches!(r.call, Call::Reg { .. })) {
        let r = remote(reg.call).unwrap();
        if r.node() == OWN {
            continue; // ignored by design: a node never registers its own stamps
        }
        // "unless it was beyond the allowed drift": judged against every wall reading the
        // clock may have used; the grid keeps registered stamps clearly inside or outside.
        let beyond = r.datacake_timestamp().saturating_sub(Duration::from_secs(BASE)) > MAX_CLOCK_DRIFT;
        if beyond {
            st.inc("registrations_beyond_drift");
            continue;
        }
        for get in obs.iter().filter(|g| g.call == Call::Get && g.start > reg.end) {
            st.inc("get_after_register_pairs");
            let got = HLCTimestamp::from_u64(get.result.unwrap());
            if got <= r {
                st.violation_ranked(
                    "stamp-not-greater-than-registered-remote",
                    rank,
                    || format!("task {} registered {r}; task {} then asked for the time and got {got}", reg.task, get.task),
                    case,
                );
            }
        }
    }
    // every stamp carries the node id
    if obs.iter().filter_map(|r| r.result).any(|s| HLCTimestamp::from_u64(s).node() != OWN) {
        st.violation_ranked("stamp-with-foreign-node-id", rank, || "a stamp does not carry the clock's node id".to_string(), case);
    }
    // distinct observable outcomes: the order in which calls were served
    let mut order: Vec<(u64, usize, usize)> = obs.iter().filter_map(|r| r.result.map(|s| (s, r.task, r.idx))).collect();
    order.sort();
    let order: Vec<(usize, usize)> = order.into_iter().map(|(_, t, i)| (t, i)).collect();
    st.seen("service_orders", fp128(&(progs, format!("{mode:?}"), order)));
    st.seen("schedules", fp128(&(progs, format!("{mode:?}"), &run.choices)));
}

fn explore_scenario(progs: &[Vec<Call>], mode: Wall, bound: Option<usize>, total: &mut Stats, summary: &mut vkit::e2::Summary) {
    let cfg = ExploreCfg { max_deviations: bound, max_executions: 3_000_000, determinism_check_every: 97 };
    let (st, sum) = e2::explore(
        &cfg,
        |prefix| run_one(progs, mode, prefix),
        |st, run, obs| judge(progs, mode, run, obs, st),
    );
    if total.samples.len() < 3 && sum.executions > 0 {
        let (run, _) = run_one(progs, mode, &[0, 1]);
        total.sample(|| case_json(progs, mode, &run));
    }
    total.merge(st);
    summary.executions += sum.executions;
    summary.max_steps = summary.max_steps.max(sum.max_steps);
    summary.max_width = summary.max_width.max(sum.max_width);
    summary.deadlocks += sum.deadlocks;
    summary.nondeterministic += sum.nondeterministic;
    summary.prefix_misfits += sum.prefix_misfits;
    summary.capped |= sum.capped;
}

pub fn run(tier: Tier) -> i32 {
    let mut report = Report::new("C11", tier, "model_checking");
    let progs = programs(tier.is_thorough());
    let mut total = Stats::default();
    let mut summary = vkit::e2::Summary::default();
    let walls = [Wall::Stall, Wall::Tick4ms, Wall::Jumpy];

    // k = 2: all schedules
    let mut scenarios = 0u64;
    for a in 0..progs.len() {
        for b in a..progs.len() {
            for mode in walls {
                scenarios += 1;
                explore_scenario(&[progs[a].clone(), progs[b].clone()], mode, None, &mut total, &mut summary);
            }
        }
    }
    // a saturated clock: one task has as many requests in flight as the clock's queue holds
    // (1000) while another registers a remote stamp and then asks for the time
    for second in [vec![R_AHEAD, Call::Get], vec![Call::Get, R_AHEAD, Call::Get]] {
        for mode in [Wall::Stall, Wall::Tick4ms] {
            scenarios += 1;
            explore_scenario(&[vec![Call::Flood(1000)], second.clone()], mode, Some(tier.pick(2, 4)), &mut total, &mut summary);
        }
    }
    // k = 3: deviation bound
    let k3_bound = tier.pick(2, 6);
    let trio: Vec<[usize; 3]> = if tier.is_thorough() {
        vec![[0, 1, 3], [1, 2, 3], [0, 4, 5], [1, 1, 0], [3, 3, 2]]
    } else {
        vec![[0, 1, 3], [1, 2, 0]]
    };
    for t in &trio {
        for mode in walls {
            scenarios += 1;
            explore_scenario(
                &[progs[t[0]].clone(), progs[t[1]].clone(), progs[t[2]].clone()],
                mode,
                Some(k3_bound),
                &mut total,
                &mut summary,
            );
        }
    }

    let orders = total.distinct_count("service_orders");
    let schedules = total.distinct_count("schedules");
    let pairs = total.get("get_after_register_pairs");
    let beyond = total.get("registrations_beyond_drift");
    total.flush_into(&mut report);
    report.cover("states", schedules);
    report.cover("transitions", summary.executions * summary.max_steps.max(1) as u64);
    report.cover("traces_validated_against_impl", summary.executions);
    report.cover("evaluations", summary.executions);
    report.cover("distinct_nontrivial", orders);
    report.cover(
        "rule",
        "per scenario (task programs x wall-clock behaviour) every schedule of await-point interleavings within the \
         deviation bound, executed on the real Clock actor; states = distinct complete schedules; distinct_nontrivial = \
         distinct orders in which the calls were served",
    );
    report.cover("scenarios", scenarios);
    report.cover("executions", summary.executions);
    report.cover("max_steps_per_execution", summary.max_steps);
    report.cover("k2_deviation_bound", "unbounded (all schedules)");
    report.cover("k3_deviation_bound", k3_bound);
    report.cover("exhaustive", !summary.capped);
    report.cover("execution_cap_hit", summary.capped);
    report.guard(summary.nondeterministic == 0, "an execution did not reproduce when run twice with the same schedule");
    report.guard(summary.prefix_misfits == 0, "a schedule prefix did not fit its re-execution");
    report.guard(summary.deadlocks == 0 || !report.violation_keys().is_empty(), "deadlock bookkeeping");
    report.guard(orders > scenarios, "interleavings did not produce more than one service order per scenario");
    report.guard_nonzero("guard_get_after_register_pairs", pairs);
    report.guard_nonzero("guard_registrations_beyond_drift", beyond);
    report.assume("explored on a current-thread runtime at await-point granularity; on multi-threaded runtimes every execution is equivalent to one order of enqueueing into the actor's FIFO channel, and all those orders are what the schedules enumerate (argued, DESIGN.md section 3 C11)");
    report.assume("wall clock behaviours: stalled, +4 ms per step, and a forwards/backwards/stall pattern, injected through the cfg(datacake_verif) seam");
    report.finish()
}

pub fn replay(case: &J) -> i32 {
    let parse_call = |s: &str| -> Option<Call> {
        [Call::Get, R_SAME_TICK, R_AHEAD, R_FAR, R_BEYOND, R_OWN]
            .into_iter()
            .find(|c| format!("{c:?}") == s)
    };
    let progs: Vec<Vec<Call>> = case
        .get("programs")
        .and_then(|v| v.as_arr())
        .unwrap_or(&[])
        .iter()
        .map(|p| p.as_arr().unwrap_or(&[]).iter().filter_map(|c| parse_call(c.as_str()?)).collect())
        .collect();
    let mode = match case.get("wall").and_then(|v| v.as_str()) {
        Some("Tick4ms") => Wall::Tick4ms,
        Some("Jumpy") => Wall::Jumpy,
        _ => Wall::Stall,
    };
    let schedule: Vec<usize> = case
        .get("schedule")
        .and_then(|v| v.as_arr())
        .unwrap_or(&[])
        .iter()
        .filter_map(|v| v.as_u64().map(|x| x as usize))
        .collect();
    let (run, obs) = run_one(&progs, mode, &schedule);
    let (run2, obs2) = run_one(&progs, mode, &schedule);
    if run != run2 || obs != obs2 {
        eprintln!("replay is not deterministic");
        return 2;
    }
    for r in &obs {
        println!(
            "task {} call {} {:?} [{}..{}] -> {}",
            r.task,
            r.idx,
            r.call,
            r.start,
            r.end,
            r.result.map(|s| HLCTimestamp::from_u64(s).to_string()).unwrap_or_else(|| "-".into())
        );
    }
    let mut st = Stats::default();
    judge(&progs, mode, &run, &obs, &mut st);
    for f in &st.found {
        println!("{}: {}", f.key, f.what);
    }
    (!st.found.is_empty()) as i32
}
