//! C01 — the cluster converges: every node ends with the same last-writer-wins documents.
//!
//! Primary check (Layer B): direct exploration of the public write path on a real
//! in-process cluster. Histories of client operations (real `put / del / put_many /
//! del_many` with their consistency level) are enumerated exhaustively; inside each
//! execution every environment decision is a *choice point* owned by the explorer:
//!
//!   * for every direct replication RPC and every batch RPC: deliver / lose the request /
//!     lose the reply (which, together with the batch that follows, gives loss, delay,
//!     duplication and reordering of the direct messages);
//!   * after every operation: nothing, a batch flush of some node, a repair exchange
//!     i <- j, or a stop-and-restart of some node on its storage;
//!   * which nodes flush their batch only after the closing exchanges;
//!   * the order of the closing pairwise exchanges.
//!
//! Choice 0 is the default everywhere (deliver, no extra event, flush before closing,
//! canonical order); every other choice is one *deviation*. Executions are enumerated
//! depth-first by re-execution from choice prefixes up to a deviation bound.
//!
//! Oracle after the closing phase (and again after late flushes): reads of every node are
//! identical and equal, per id, to the locally issued write with the greatest stamp
//! (from the issuers' storage logs). C02's agreement is checked on every node as a side
//! condition.

use std::cell::RefCell;
use std::collections::BTreeMap;
use std::rc::Rc;
use std::sync::Arc;

use datacake_crdt::{HLCTimestamp, Key};
use datacake_eventual_consistency::test_utils::MemStore;
use datacake_eventual_consistency::Storage;
use datacake_node::{Consistency, NodeId};
use datacake_rpc::verif::NetVerdict;
use vkit::e2::{self, ExploreCfg, Run};
use vkit::{fp128, Report, Stats, Tier, J};

use crate::stores::{read_rows, FaultStore, MapStore};
use crate::world::{reset_seams, Cluster, Node, Wall};

pub const KS: &str = "ks";

#[derive(Clone, Copy, Debug, PartialEq, Eq, Hash)]
pub enum Kind {
    Put(Key),
    Del(Key),
    PutMany,
    /// put_many with the same id twice (different bytes, one stamp): the last one wins locally
    PutManyDup,
    DelMany,
    /// concurrency block only: this node runs one repair cycle against the given node
    RepairFrom(usize),
}

#[derive(Clone, Copy, Debug, PartialEq, Eq, Hash)]
pub struct OpSpec {
    pub node: usize,
    pub kind: Kind,
    pub level: Consistency,
}

pub fn op_json(o: &OpSpec) -> J {
    J::from(format!("node{} {:?} {:?}", o.node, o.kind, o.level))
}

/// The explorer's handle on nondeterminism inside one execution.
pub struct Chooser {
    prefix: Vec<usize>,
    pub widths: Vec<usize>,
    pub choices: Vec<usize>,
    pub misfit: bool,
}

impl Chooser {
    pub fn new(prefix: &[usize]) -> Self {
        Self { prefix: prefix.to_vec(), widths: vec![], choices: vec![], misfit: false }
    }
    /// Picks one of `n` options (0 = default). Points with a single option are not recorded.
    pub fn choose(&mut self, n: usize) -> usize {
        if n <= 1 {
            return 0;
        }
        let i = self.choices.len();
        let mut c = self.prefix.get(i).copied().unwrap_or(0);
        if c >= n {
            self.misfit = true;
            c = 0;
        }
        self.widths.push(n);
        self.choices.push(c);
        c
    }
    pub fn position(&self) -> usize {
        self.choices.len()
    }
    /// Indices (relative to `from`) of the non-default choices made since `from`.
    pub fn nonzero_since(&self, from: usize) -> Vec<usize> {
        self.choices[from.min(self.choices.len())..].iter().enumerate().filter(|(_, c)| **c != 0).map(|(i, _)| i).collect()
    }
    pub fn into_run(self) -> Run {
        Run { widths: self.widths, ran: self.choices.clone(), choices: self.choices, deadlocked: false, prefix_misfit: self.misfit }
    }
}

type Doc = (HLCTimestamp, Vec<u8>);

#[derive(Debug, Clone, PartialEq, Default)]
pub struct Outcome {
    pub events: Vec<String>,
    /// per node: live documents readable from storage after the closing phase
    pub reads: Vec<BTreeMap<Key, Doc>>,
    /// the same after the late batch flushes
    pub reads_after_late_flush: Vec<BTreeMap<Key, Doc>>,
    pub reference: BTreeMap<Key, Doc>,
    pub set_store_disagreements: Vec<String>,
    pub multi_get_disagreements: Vec<String>,
    pub errors: Vec<String>,
    pub local_writes: usize,
    pub concurrent: bool,
}

async fn live_docs<S: Storage>(store: &S) -> Result<BTreeMap<Key, Doc>, String> {
    let rows = read_rows(store, KS).await?;
    Ok(rows
        .into_iter()
        .filter_map(|(k, (t, d))| d.map(|d| (k, (t, d))))
        .collect())
}

async fn side_conditions<S: Storage>(cluster: &Cluster<S>, when: &str, out: &mut Outcome) {
    for n in &cluster.nodes {
        let Ok(set) = n.set_of(KS).await else {
            out.errors.push(format!("node{}: set unreadable {when}", n.id));
            continue;
        };
        let snap = set.verif_snapshot();
        let rows = read_rows(n.storage.as_ref(), KS).await.unwrap_or_default();
        let live: Vec<_> = rows.iter().filter(|(_, (_, d))| d.is_some()).map(|(k, (t, _))| (*k, *t)).collect();
        let dead: Vec<_> = rows.iter().filter(|(_, (_, d))| d.is_none()).map(|(k, (t, _))| (*k, *t)).collect();
        if snap.entries != live || snap.dead != dead {
            out.set_store_disagreements.push(format!(
                "node{} {when}: set live {:?} dead {:?}; store live {:?} dead {:?}",
                n.id, snap.entries, snap.dead, live, dead
            ));
        }
        // multi_get must agree with get
        if let Ok(docs) = n.storage.multi_get(KS, [1u64, 2u64].into_iter()).await {
            let mut via_multi: Vec<(Key, HLCTimestamp, Vec<u8>)> = docs.map(|d| (d.id(), d.last_updated(), d.data().to_vec())).collect();
            via_multi.sort();
            let via_get: Vec<(Key, HLCTimestamp, Vec<u8>)> = rows
                .iter()
                .filter_map(|(k, (_, d))| d.as_ref().map(|d| *k).map(|k| k))
                .filter_map(|k| rows.get(&k).map(|(t, d)| (k, *t, d.clone().unwrap())))
                .collect();
            if via_multi.iter().map(|d| (d.0, &d.2)).collect::<Vec<_>>() != via_get.iter().map(|d| (d.0, &d.2)).collect::<Vec<_>>() {
                out.multi_get_disagreements.push(format!("node{} {when}", n.id));
            }
        }
    }
}

/// The property speaks about operations issued within one forgiveness period (one hour) of
/// each other: a history may contain at most one jump of this many minutes.
const JUMP_MINUTES: u64 = 55;

#[derive(Clone, Copy, Debug, PartialEq)]
pub enum Scripted {
    Flush(usize),
    Restart(usize),
    Jump,
    Down(usize),
    Back(usize),
}

impl Scripted {
    fn text(&self) -> String {
        match self {
            Scripted::Flush(n) => format!("flush:{n}"),
            Scripted::Restart(n) => format!("restart:{n}"),
            Scripted::Jump => "jump".to_string(),
            Scripted::Down(n) => format!("down:{n}"),
            Scripted::Back(n) => format!("back:{n}"),
        }
    }
    fn parse(t: &str) -> Option<Scripted> {
        let (k, n) = t.split_once(':').map(|(k, n)| (k, n.parse().unwrap_or(0))).unwrap_or((t, 0));
        Some(match k {
            "flush" => Scripted::Flush(n),
            "restart" => Scripted::Restart(n),
            "jump" => Scripted::Jump,
            "down" => Scripted::Down(n),
            "back" => Scripted::Back(n),
            _ => return None,
        })
    }
}

#[derive(Clone)]
pub struct ExecCfg {
    /// one more choice point at the start: some node is unreachable (every request to it is
    /// refused) until a chosen later moment; it then learns everything through repair
    pub allow_unreachable_node: bool,
    /// repair exchanges that happen as extra events may lose any of their RPCs (state poll,
    /// state fetch, document fetch: one choice point each), and extra events may also follow
    /// the last operation; the closing exchanges always complete. A failed exchange must
    /// not keep later, healthy exchanges from repairing.
    pub faulty_repairs: bool,
    /// one more kind of extra event, at most once per execution: every wall clock moves on
    /// by 55 minutes, so that later stamps of an origin are almost one forgiveness period
    /// newer than earlier ones a lagging or restarted node has yet to learn through repair
    /// (the whole history stays within one hour, as the property requires)
    pub time_jumps: bool,
    /// a sharp driver: events that always happen in the gap after operation i (before the
    /// explored extra events of that gap)
    pub script: Vec<Vec<Scripted>>,
    /// minutes by which each node's wall clock reading is ahead when it issues an operation
    pub skew_minutes: Vec<u64>,
    /// concurrency block only: step background tasks one poll at a time for every pair (always
    /// done for repair races)
    pub fine_grained: bool,
    /// concurrency block only: operations issued one after another (and left unreplicated when
    /// `lose_all_direct` is set) before the two racing clients start
    pub prelude: Vec<OpSpec>,
    /// concurrency block only: every direct replication RPC and every batch is lost, so
    /// that only the anti-entropy exchanges can bring the nodes together
    pub lose_all_direct: bool,
    /// every distributor batch is lost while direct messages are delivered (concurrency block)
    pub lose_batches: bool,
    /// a late duplicate of the direct message of an earlier single operation is an extra event
    /// (delay and duplication of direct messages), also after the last operation
    pub late_duplicates: bool,
    pub n_nodes: usize,
    pub mem_store: bool,
    pub allow_restart: bool,
    pub check_side_conditions_every_event: bool,
}

fn closing_orders(n: usize) -> Vec<Vec<(usize, usize)>> {
    let mut pairs = Vec::new();
    for i in 0..n {
        for j in 0..n {
            if i != j {
                pairs.push((i, j));
            }
        }
    }
    let mut orders = vec![pairs.clone()];
    // reversed, every rotation, every adjacent transposition
    let mut rev = pairs.clone();
    rev.reverse();
    orders.push(rev);
    for r in 1..pairs.len() {
        let mut p = pairs.clone();
        p.rotate_left(r);
        orders.push(p);
    }
    for t in 0..pairs.len().saturating_sub(1) {
        let mut p = pairs.clone();
        p.swap(t, t + 1);
        orders.push(p);
    }
    orders.dedup();
    orders
}

pub async fn execute_generic<I>(cfg: &ExecCfg, ops: &[OpSpec], chooser: Rc<RefCell<Chooser>>, make_inner: impl Fn() -> Arc<I>) -> Outcome
where
    I: Storage,
    I::Error: std::fmt::Display,
{
    reset_seams();
    let wall = Wall::start();
    let mut out = Outcome::default();
    let layout: Vec<(NodeId, String)> = (0..cfg.n_nodes).map(|i| (i as NodeId + 1, "dc".to_string())).collect();
    let mut cluster: Cluster<FaultStore<I>> = Cluster::start(&layout, |_| Arc::new(FaultStore::new(make_inner()))).await;
    let repair_rpcs_may_fail = Rc::new(std::cell::Cell::new(false));
    {
        let chooser = chooser.clone();
        let repair_rpcs_may_fail = repair_rpcs_may_fail.clone();
        let lose_all_direct = cfg.lose_all_direct;
        let lose_batches = cfg.lose_batches;
        datacake_rpc::verif::set_policy(move |_dst, path| {
            if !path.contains("ConsistencyService") {
                // repair RPCs: the closing exchanges complete; an exchange in the middle of
                // a history may lose any of its requests when the block says so
                if repair_rpcs_may_fail.get() && chooser.borrow_mut().choose(2) == 1 {
                    return NetVerdict::DropRequest;
                }
                return NetVerdict::Deliver;
            }
            if lose_batches && path.contains("BatchPayload") {
                return NetVerdict::DropRequest;
            }
            if lose_all_direct {
                // anti-entropy only: every direct message and every batch is lost
                return NetVerdict::DropRequest;
            }
            match chooser.borrow_mut().choose(3) {
                0 => NetVerdict::Deliver,
                1 => NetVerdict::DropRequest,
                _ => NetVerdict::DropReply,
            }
        });
    }
    let n = cfg.n_nodes;
    let mut payload_counter = 0u32;
    // an unreachable node: which one (0 = none) and after which operation it comes back
    let mut down: Option<usize> = None;
    let mut back_after = 0usize;
    if cfg.allow_unreachable_node {
        let c = chooser.borrow_mut().choose(1 + n);
        if c > 0 {
            down = Some(c - 1);
            back_after = chooser.borrow_mut().choose(ops.len().max(1));
            datacake_rpc::verif::set_reachable(crate::world::node_addr(c as NodeId), false);
            out.events.push(format!("node{} is unreachable from the start", c - 1));
        }
    }

    for ev in cfg.script.first().cloned().unwrap_or_default() {
        match ev {
            Scripted::Down(d) => {
                out.events.push(format!("node{d} is unreachable from the start (scripted)"));
                datacake_rpc::verif::set_reachable(crate::world::node_addr(d as NodeId + 1), false);
            },
            Scripted::Jump => wall.advance(std::time::Duration::from_secs(JUMP_MINUTES * 60)),
            _ => {},
        }
    }
    let mut jumped = false;
    // direct messages of the single operations done so far: (issuer index, id, stamp, bytes)
    let mut sent: Vec<(usize, Key, HLCTimestamp, Option<Vec<u8>>)> = Vec::new();
    for (oi, op) in ops.iter().enumerate() {
        wall.tick();
        let log_before_op = cluster.nodes[op.node].storage.log_len();
        let skew = cfg.skew_minutes.get(op.node).copied().unwrap_or(0);
        if skew > 0 {
            wall.advance(std::time::Duration::from_secs(skew * 60));
        }
        let node = &cluster.nodes[op.node];
        let mut payload = |k: Key| {
            payload_counter += 1;
            format!("write#{payload_counter} of key {k} by node{}", op.node).into_bytes()
        };
        let window = crate::stores::call_window(node.id);
        let res = match op.kind {
            Kind::Put(k) => node.store.put(KS, k, payload(k), op.level).await.map_err(|e| e.to_string()),
            Kind::Del(k) => node.store.del(KS, k, op.level).await.map_err(|e| e.to_string()),
            Kind::PutMany => node
                .store
                .put_many(KS, vec![(1u64, payload(1)), (2u64, payload(2))], op.level)
                .await
                .map_err(|e| e.to_string()),
            Kind::PutManyDup => node
                .store
                .put_many(KS, vec![(1u64, payload(1)), (1u64, payload(1))], op.level)
                .await
                .map_err(|e| e.to_string()),
            Kind::DelMany => node.store.del_many(KS, vec![1u64, 2u64], op.level).await.map_err(|e| e.to_string()),
            Kind::RepairFrom(_) => Err("repair clients exist in the concurrency block only".to_string()),
        };
        drop(window);
        vkit::e2::settle().await;
        if cfg.late_duplicates && matches!(op.kind, Kind::Put(_) | Kind::Del(_)) {
            let log = cluster.nodes[op.node].storage.log();
            let own = cluster.nodes[op.node].id;
            if let Some((id, ts, data)) = log[log_before_op.min(log.len())..].iter().flat_map(|e| e.docs.iter()).find(|(_, ts, _)| ts.node() == own) {
                sent.push((op.node, *id, *ts, data.clone()));
            }
        }
        if skew > 0 {
            wall.rewind(std::time::Duration::from_secs(skew * 60));
        }
        if let Some(d) = down {
            if oi == back_after {
                datacake_rpc::verif::set_reachable(crate::world::node_addr(d as NodeId + 1), true);
                out.events.push(format!("node{d} becomes reachable again"));
                down = None;
            }
        }
        out.events.push(format!("op {}: {} -> {}", oi, op_json(op).to_string_compact(), if res.is_ok() { "Ok".to_string() } else { res.unwrap_err() }));
        if cfg.check_side_conditions_every_event {
            side_conditions(&cluster, &format!("after op {oi}"), &mut out).await;
        }
        for ev in cfg.script.get(oi + 1).cloned().unwrap_or_default() {
            wall.tick();
            match ev {
                Scripted::Flush(c) => {
                    out.events.push(format!("batch flush of node{c} (scripted)"));
                    cluster.nodes[c].tick().await;
                },
                Scripted::Restart(r) => {
                    out.events.push(format!("node{r} stops and restarts on its storage (scripted)"));
                    let old = cluster.nodes.remove(r);
                    let id = old.id;
                    let storage = old.stop();
                    let fresh = Node::start(id, "dc", storage).await;
                    fresh.set_membership(&layout).await;
                    cluster.nodes.insert(r, fresh);
                },
                Scripted::Jump => {
                    out.events.push("55 minutes pass (scripted)".to_string());
                    wall.advance(std::time::Duration::from_secs(JUMP_MINUTES * 60));
                },
                Scripted::Down(d) => {
                    out.events.push(format!("node{d} becomes unreachable (scripted)"));
                    datacake_rpc::verif::set_reachable(crate::world::node_addr(d as NodeId + 1), false);
                },
                Scripted::Back(d) => {
                    out.events.push(format!("node{d} becomes reachable again (scripted)"));
                    datacake_rpc::verif::set_reachable(crate::world::node_addr(d as NodeId + 1), true);
                },
            }
        }
        // extra events in the gap after this operation (not after the last one: the end
        // phase below covers that)
        if oi + 1 < ops.len() || cfg.faulty_repairs || cfg.time_jumps || cfg.late_duplicates {
            for _ in 0..2 {
                let n_ticks = n;
                let n_repairs = n * (n - 1);
                let n_restarts = if cfg.allow_restart { n } else { 0 };
                let n_jumps = if cfg.time_jumps && !jumped { 1 } else { 0 };
                let n_dups = sent.len();
                let c = chooser.borrow_mut().choose(1 + n_ticks + n_repairs + n_restarts + n_jumps + n_dups);
                if c == 0 {
                    break;
                }
                wall.tick();
                let c = c - 1;
                if c >= n_ticks + n_repairs + n_restarts + n_jumps {
                    let (issuer, id, ts, data) = sent[c - (n_ticks + n_repairs + n_restarts + n_jumps)].clone();
                    out.events.push(format!("late duplicate of node{issuer}'s direct message for id {id} at {ts} reaches the other nodes"));
                    for j in 0..n {
                        if j == issuer {
                            continue;
                        }
                        let from = &cluster.nodes[issuer];
                        let channel = from.network.get_or_connect(cluster.nodes[j].addr);
                        let mut client = datacake_eventual_consistency::verif::ConsistencyClient::<FaultStore<I>>::new(from.clock.clone(), channel);
                        let _ = match &data {
                            Some(bytes) => client.put(KS, datacake_eventual_consistency::Document::new(id, ts, bytes.clone()), from.id, from.addr).await,
                            None => client.del(KS, id, ts).await,
                        };
                        vkit::e2::settle().await;
                    }
                } else if c >= n_ticks + n_repairs + n_restarts {
                    jumped = true;
                    out.events.push("55 minutes pass".to_string());
                    wall.advance(std::time::Duration::from_secs(JUMP_MINUTES * 60));
                } else if c < n_ticks {
                    out.events.push(format!("batch flush of node{c}"));
                    cluster.nodes[c].tick().await;
                } else if c < n_ticks + n_repairs {
                    let r = c - n_ticks;
                    let pairs = cluster.all_pairs();
                    let (i, j) = pairs[r];
                    out.events.push(format!("repair node{i} <- node{j}"));
                    repair_rpcs_may_fail.set(cfg.faulty_repairs);
                    let before = chooser.borrow().position();
                    cluster.repair(i, j).await;
                    repair_rpcs_may_fail.set(false);
                    if cfg.faulty_repairs {
                        let lost = chooser.borrow().nonzero_since(before);
                        if !lost.is_empty() {
                            out.events.push(format!("  (request(s) {lost:?} of that exchange were lost)"));
                        }
                    }
                } else {
                    let r = c - n_ticks - n_repairs;
                    out.events.push(format!("node{r} stops and restarts on its storage"));
                    let old = cluster.nodes.remove(r);
                    let id = old.id;
                    let storage = old.stop();
                    let fresh = Node::start(id, "dc", storage).await;
                    fresh.set_membership(&layout).await;
                    cluster.nodes.insert(r, fresh);
                }
                if cfg.check_side_conditions_every_event {
                    side_conditions(&cluster, "after an extra event", &mut out).await;
                }
            }
        }
    }

    if let Some(d) = down {
        datacake_rpc::verif::set_reachable(crate::world::node_addr(d as NodeId + 1), true);
        out.events.push(format!("node{d} becomes reachable again"));
    }
    for d in 0..n {
        datacake_rpc::verif::set_reachable(crate::world::node_addr(d as NodeId + 1), true);
    }
    end_phase(cfg, &mut cluster, &wall, &chooser, &mut out).await;
    out
}



/// Locally issued writes: a node's own storage log entries whose stamp carries its id and
/// that were written there while one of the node's own client calls was running, or that
/// reached *its* storage before any other node's (replicated copies carry the origin's id;
/// a copy whose stamp was altered on the way carries the origin's id too, but shows up at a
/// replica first and comes back to the origin by anti-entropy, outside any client call — that
/// is not an operation anybody issued).
fn reference_from_logs<I>(cluster: &Cluster<FaultStore<I>>) -> (BTreeMap<Key, Doc>, usize)
where
    I: Storage,
    I::Error: std::fmt::Display,
{
    let windows = crate::stores::call_windows();
    let mut first_seen: BTreeMap<(Key, HLCTimestamp), (u64, NodeId)> = BTreeMap::new();
    for n in &cluster.nodes {
        for e in n.storage.log() {
            if e.call == "remove_tombstones" {
                continue;
            }
            for (id, ts, _) in &e.docs[..e.written.min(e.docs.len())] {
                let slot = first_seen.entry((*id, *ts)).or_insert((e.seq, n.id));
                if e.seq < slot.0 {
                    *slot = (e.seq, n.id);
                }
            }
        }
    }
    let mut best: BTreeMap<Key, (HLCTimestamp, Option<Vec<u8>>)> = BTreeMap::new();
    let mut count = 0;
    for n in &cluster.nodes {
        for e in n.storage.log() {
            if e.call == "remove_tombstones" {
                continue;
            }
            for (id, ts, data) in &e.docs[..e.written.min(e.docs.len())] {
                let first_here = first_seen.get(&(*id, *ts)).map(|f| f.1) == Some(n.id);
                let during_own_call = windows.iter().any(|(node, start, end)| *node == n.id && *start <= e.seq && e.seq < *end);
                if ts.node() != n.id || !(first_here || during_own_call) {
                    continue;
                }
                count += 1;
                match best.get(id) {
                    // (one put_many call stamps all its documents alike: the later one wins)
                    Some((t, _)) if t > ts => {},
                    _ => {
                        best.insert(*id, (*ts, data.clone()));
                    },
                }
            }
        }
    }
    (best.into_iter().filter_map(|(k, (t, d))| d.map(|d| (k, (t, d)))).collect(), count)
}

async fn end_phase<I>(cfg: &ExecCfg, cluster: &mut Cluster<FaultStore<I>>, wall: &Wall, chooser: &Rc<RefCell<Chooser>>, out: &mut Outcome)
where
    I: Storage,
    I::Error: std::fmt::Display,
{
    let n = cfg.n_nodes;
    // ---- end phase: batch flushes (some possibly only after the closing exchanges)
    let late_mask = chooser.borrow_mut().choose(1 << n);
    for i in 0..n {
        if late_mask & (1 << i) == 0 {
            wall.tick();
            out.events.push(format!("batch flush of node{i}"));
            cluster.nodes[i].tick().await;
        }
    }
    // ---- closing phase: every node exchanges with every other node
    let orders = closing_orders(n);
    let oc = chooser.borrow_mut().choose(orders.len());
    out.events.push(format!("closing exchanges in order {:?}", orders[oc]));
    wall.tick();
    cluster.closing_round(&orders[oc]).await;
    for node in &cluster.nodes {
        match live_docs(node.storage.as_ref()).await {
            Ok(d) => out.reads.push(d),
            Err(e) => out.errors.push(e),
        }
    }
    side_conditions(cluster, "after the closing phase", out).await;
    // ---- late flushes: convergence must persist
    for i in 0..n {
        if late_mask & (1 << i) != 0 {
            wall.tick();
            out.events.push(format!("late batch flush of node{i}"));
            cluster.nodes[i].tick().await;
        }
    }
    for node in &cluster.nodes {
        match live_docs(node.storage.as_ref()).await {
            Ok(d) => out.reads_after_late_flush.push(d),
            Err(e) => out.errors.push(e),
        }
    }
    if late_mask != 0 {
        side_conditions(cluster, "after the late flushes", out).await;
    }
    // ---- reference: per id the locally issued write with the greatest stamp
    let (reference, count) = reference_from_logs(cluster);
    out.reference = reference;
    out.local_writes = count;
}

pub fn run_one(cfg: &ExecCfg, ops: &[OpSpec], prefix: &[usize]) -> (Run, Outcome) {
    let chooser = Rc::new(RefCell::new(Chooser::new(prefix)));
    let out = e2::block_on_fresh(async {
        if cfg.mem_store {
            execute_generic(cfg, ops, chooser.clone(), || Arc::new(MemStore::default())).await
        } else {
            execute_generic(cfg, ops, chooser.clone(), || Arc::new(MapStore::default())).await
        }
    });
    datacake_rpc::verif::reset();
    let chooser = Rc::try_unwrap(chooser).ok().expect("chooser still shared").into_inner();
    (chooser.into_run(), out)
}


// ------------------------------------------------------------------ concurrency block (E2)

/// Two client tasks issue one operation each at the same time (same node or different
/// nodes, first use of the keyspace included); all await-point interleavings are explored
/// with the E2 driver, then the default end phase runs. This is what produces a batch
/// whose enqueue order differs from its stamp order, and concurrent first uses of a
/// keyspace on the issuing and on the receiving side.
pub fn run_concurrent(cfg: &ExecCfg, pair: &[OpSpec], prefix: &[usize]) -> (Run, Outcome) {
    let chooser = Rc::new(RefCell::new(Chooser::new(&[])));
    let fine = cfg.fine_grained || pair.iter().any(|o| matches!(o.kind, Kind::RepairFrom(_)));
    let body = async {
        reset_seams();
        let wall = Wall::start();
        let mut out = Outcome { concurrent: true, ..Outcome::default() };
        let layout: Vec<(NodeId, String)> = (0..cfg.n_nodes).map(|i| (i as NodeId + 1, "dc".to_string())).collect();
        let mut cluster: Cluster<FaultStore<MapStore>> = Cluster::start(&layout, |_| Arc::new(FaultStore::new(Arc::new(MapStore::default())))).await;
        if cfg.lose_all_direct {
            datacake_rpc::verif::set_policy(|_dst, path| {
                if path.contains("ConsistencyService") {
                    NetVerdict::DropRequest
                } else {
                    NetVerdict::Deliver
                }
            });
        } else if cfg.lose_batches {
            datacake_rpc::verif::set_policy(|_dst, path| {
                if path.contains("BatchPayload") {
                    NetVerdict::DropRequest
                } else {
                    NetVerdict::Deliver
                }
            });
        }
        for (pi, op) in cfg.prelude.iter().enumerate() {
            wall.tick();
            let node = &cluster.nodes[op.node];
            let payload = |k: Key| format!("prelude write {pi} of key {k} by node{}", op.node).into_bytes();
            let _window = crate::stores::call_window(node.id);
            let _ = match op.kind {
                Kind::Put(k) => node.store.put(KS, k, payload(k), op.level).await.map_err(|e| e.to_string()),
                Kind::Del(k) => node.store.del(KS, k, op.level).await.map_err(|e| e.to_string()),
                Kind::PutMany => node.store.put_many(KS, vec![(1u64, payload(1)), (2u64, payload(2))], op.level).await.map_err(|e| e.to_string()),
                Kind::PutManyDup => node.store.put_many(KS, vec![(1u64, payload(1)), (1u64, format!("prelude second write {pi}").into_bytes())], op.level).await.map_err(|e| e.to_string()),
                Kind::DelMany => node.store.del_many(KS, vec![1u64, 2u64], op.level).await.map_err(|e| e.to_string()),
                Kind::RepairFrom(_) => Ok(()),
            };
            vkit::e2::settle().await;
            out.events.push(format!("prelude: {}", op_json(op).to_string_compact()));
        }
        // a repair client takes the node's tracker with it and hands it back afterwards
        let trackers: Vec<Rc<RefCell<Option<datacake_eventual_consistency::verif::RepairState>>>> =
            pair.iter().map(|_| Rc::new(RefCell::new(None))).collect();
        let mut taken = Vec::new();
        for op in pair {
            if let Kind::RepairFrom(_) = op.kind {
                taken.push(Some(std::mem::take(&mut cluster.nodes[op.node].repair_state)));
            } else {
                taken.push(None);
            }
        }
        let clients: Vec<Option<e2::Client>> = pair
            .iter()
            .enumerate()
            .zip(taken)
            .map(|((ci, op), tracker)| {
                let store = cluster.nodes[op.node].store.clone();
                let group = cluster.nodes[op.node].group.clone();
                let network = cluster.nodes[op.node].network.clone();
                let slot = trackers[ci].clone();
                let op = *op;
                let issuer_id = cluster.nodes[op.node].id;
                Some(Box::pin(async move {
                    let payload = |k: Key| format!("concurrent write {ci} of key {k} by node{}", op.node).into_bytes();
                    let _window = if matches!(op.kind, Kind::RepairFrom(_)) { None } else { Some(crate::stores::call_window(issuer_id)) };
                    let _ = match op.kind {
                        Kind::Put(k) => store.put(KS, k, payload(k), op.level).await.map_err(|e| e.to_string()),
                        Kind::Del(k) => store.del(KS, k, op.level).await.map_err(|e| e.to_string()),
                        Kind::PutMany => store.put_many(KS, vec![(1u64, payload(1)), (2u64, payload(2))], op.level).await.map_err(|e| e.to_string()),
                        Kind::PutManyDup => store.put_many(KS, vec![(1u64, payload(1)), (1u64, format!("concurrent second write {ci}").into_bytes())], op.level).await.map_err(|e| e.to_string()),
                        Kind::DelMany => store.del_many(KS, vec![1u64, 2u64], op.level).await.map_err(|e| e.to_string()),
                        Kind::RepairFrom(from) => {
                            let mut state = tracker.unwrap_or_default();
                            let peers: BTreeMap<NodeId, std::net::SocketAddr> =
                                [(from as NodeId + 1, crate::world::node_addr(from as NodeId + 1))].into_iter().collect();
                            datacake_eventual_consistency::verif::repair_cycle(group, network, &peers, &mut state).await;
                            *slot.borrow_mut() = Some(state);
                            Ok(())
                        },
                    };
                }) as e2::Client)
            })
            .collect();
        let wall_ref = &wall;
        let on_step = move |_s: usize| wall_ref.tick();
        // a repair cycle does its work in spawned tasks: let the explorer slip client steps in between
        let interleave_background = fine;
        let dcfg = e2::DriveCfg { on_step: Some(&on_step), interleave_background, ..e2::DriveCfg::default() };
        let run = e2::drive(clients, prefix, &dcfg).await;
        vkit::e2::settle().await;
        for (op, slot) in pair.iter().zip(&trackers) {
            if let Some(state) = slot.borrow_mut().take() {
                cluster.nodes[op.node].repair_state = state;
            }
        }
        out.events.push(format!("concurrent operations {:?}, client steps ran in order {:?}", pair.iter().map(|o| op_json(o).to_string_compact()).collect::<Vec<_>>(), run.ran));
        end_phase(cfg, &mut cluster, &wall, &chooser, &mut out).await;
        (run, out)
    };
    let out = if fine { e2::block_on_fresh_fine(body) } else { e2::block_on_fresh(body) };
    datacake_rpc::verif::reset();
    out
}

pub fn concurrent_case_json(cfg: &ExecCfg, pair: &[OpSpec], run: &Run, out: &Outcome) -> J {
    case_json(cfg, pair, run, out).set("concurrent", true).set("schedule", run.choices.clone())
}

fn docs_json(d: &BTreeMap<Key, Doc>) -> J {
    J::Arr(
        d.iter()
            .map(|(k, (t, b))| J::from(format!("{k}@{t}={}", String::from_utf8_lossy(b))))
            .collect(),
    )
}

pub fn case_json(cfg: &ExecCfg, ops: &[OpSpec], run: &Run, out: &Outcome) -> J {
    J::obj()
        .set("nodes", cfg.n_nodes)
        .set("store", if cfg.mem_store { "MemStore" } else { "harness map store" })
        .set("restart_events_enabled", cfg.allow_restart)
        .set("operations", J::Arr(ops.iter().map(op_json).collect()))
        .set("choices", run.choices.clone())
        .set("concurrent", out.concurrent)
        .set("lose_all_direct", cfg.lose_all_direct)
        .set("lose_batches", cfg.lose_batches)
        .set("late_duplicates", cfg.late_duplicates)
        .set("fine_grained", cfg.fine_grained)
        .set("allow_unreachable_node", cfg.allow_unreachable_node)
        .set("faulty_repairs", cfg.faulty_repairs)
        .set("time_jumps", cfg.time_jumps)
        .set("script", J::Arr(cfg.script.iter().map(|g| J::from(g.iter().map(|e| e.text()).collect::<Vec<_>>())).collect()))
        .set("skew_minutes", cfg.skew_minutes.clone())
        .set("prelude", J::Arr(cfg.prelude.iter().map(op_json).collect()))
        .set("events", out.events.clone())
        .set("reads", J::Arr(out.reads.iter().map(docs_json).collect()))
        .set("expected", docs_json(&out.reference))
}

pub fn judge(cfg: &ExecCfg, ops: &[OpSpec], run: &Run, out: &Outcome, st: &mut Stats) {
    st.inc("executions");
    let rank = (run.deviations() as u64) << 40 | (ops.len() as u64) << 32 | run.choices.len() as u64;
    let case = || case_json(cfg, ops, run, out);
    if !out.errors.is_empty() {
        st.violation_ranked("harness/read-error", rank, || format!("{:?}", out.errors), case);
        return;
    }
    if run.deviations() > 0 {
        st.inc("executions_with_deviations");
    }
    let restarted = out.events.iter().any(|e| e.contains("restarts"));
    let lost = run.choices.iter().zip(&run.widths).any(|(c, w)| *w == 3 && *c != 0);
    let repair_lost = out.events.iter().any(|e| e.contains("of that exchange were lost"));
    let shape = match (restarted, lost) {
        _ if cfg.lose_all_direct => "all-direct-replication-lost",
        _ if cfg.lose_batches => "all-batches-lost",
        _ if repair_lost => "after-a-failed-repair-exchange",
        (true, _) => "with-restart",
        (false, true) => "with-message-loss",
        (false, false) => "no-faults",
    };
    for (phase, reads) in [("after-closing", &out.reads), ("after-late-flush", &out.reads_after_late_flush)] {
        let all_equal = reads.windows(2).all(|w| w[0] == w[1]);
        if !all_equal {
            st.violation_ranked(
                &format!("nodes-diverge/{phase}/{shape}"),
                rank,
                || format!("reads differ between nodes: {}", reads.iter().map(|r| docs_json(r).to_string_compact()).collect::<Vec<_>>().join(" vs ")),
                case,
            );
        } else if reads.first().map_or(false, |r| *r != out.reference) {
            let r = &reads[0];
            let kind = if r.keys().any(|k| !out.reference.contains_key(k)) {
                "deleted-document-present"
            } else if out.reference.keys().any(|k| !r.contains_key(k)) {
                "document-missing"
            } else {
                "older-write-won"
            };
            st.violation_ranked(
                &format!("converged-to-wrong-result/{kind}/{phase}/{shape}"),
                rank,
                || format!("all nodes read {} but the greatest-timestamp writes are {}", docs_json(r).to_string_compact(), docs_json(&out.reference).to_string_compact()),
                case,
            );
        }
    }
    if !out.set_store_disagreements.is_empty() {
        st.violation_ranked(
            &format!("set-and-store-disagree/{shape}"),
            rank,
            || out.set_store_disagreements[0].clone(),
            case,
        );
    }
    if !out.multi_get_disagreements.is_empty() {
        st.violation_ranked("multi-get-disagrees-with-get", rank, || out.multi_get_disagreements[0].clone(), case);
    }
    if out.reads.first() == Some(&out.reference) {
        st.seen("outcomes", fp128(&format!("{:?}", out.reference.iter().map(|(k, (_, b))| (k, b)).collect::<Vec<_>>())));
    }
    st.seen("event_traces", fp128(&out.events));
    st.add("events_executed", out.events.len() as u64);
}

pub fn op_alphabet(n_nodes: usize, levels: &[Consistency]) -> Vec<OpSpec> {
    let mut v = Vec::new();
    for node in 0..n_nodes {
        for kind in [Kind::Put(1), Kind::Del(1), Kind::Put(2), Kind::Del(2), Kind::PutMany, Kind::DelMany] {
            for level in levels {
                v.push(OpSpec { node, kind, level: *level });
            }
        }
    }
    v
}

fn sequences(al: &[OpSpec], len: usize) -> Vec<Vec<OpSpec>> {
    let mut out: Vec<Vec<OpSpec>> = vec![vec![]];
    for _ in 0..len {
        out = out
            .into_iter()
            .flat_map(|s| {
                al.iter().map(move |o| {
                    let mut t = s.clone();
                    t.push(*o);
                    t
                })
            })
            .collect();
    }
    out
}

struct Block {
    name: &'static str,
    cfg: ExecCfg,
    histories: Vec<Vec<OpSpec>>,
    bound: usize,
}

pub fn run(tier: Tier) -> i32 {
    let mut report = Report::new("C01", tier, "model_checking");
    let mut total = Stats::default();
    let mut summary = vkit::e2::Summary::default();
    let mut blocks_json = Vec::new();

    let two = |mem| ExecCfg { allow_unreachable_node: false, faulty_repairs: false, time_jumps: false, script: vec![], skew_minutes: vec![], fine_grained: false, prelude: vec![], lose_all_direct: false, lose_batches: false, late_duplicates: false, n_nodes: 2, mem_store: mem, allow_restart: true, check_side_conditions_every_event: false };
    let mut blocks: Vec<Block> = Vec::new();
    let al2 = op_alphabet(2, &[Consistency::None, Consistency::All]);
    let al2_thin: Vec<OpSpec> = al2.iter().copied().filter(|o| !(o.level == Consistency::All && matches!(o.kind, Kind::Put(2) | Kind::Del(2)))).collect();
    let al3 = op_alphabet(3, &[Consistency::None, Consistency::All]);
    let three = |restart| ExecCfg { allow_unreachable_node: false, faulty_repairs: false, time_jumps: false, script: vec![], skew_minutes: vec![], fine_grained: false, prelude: vec![], lose_all_direct: false, lose_batches: false, late_duplicates: false, n_nodes: 3, mem_store: false, allow_restart: restart, check_side_conditions_every_event: false };
    if tier.is_thorough() {
        blocks.push(Block { name: "N=2, 2 operations, <=3 deviations", cfg: two(false), histories: sequences(&al2, 2), bound: 3 });
        blocks.push(Block { name: "N=2, 3 operations, <=2 deviations", cfg: two(false), histories: sequences(&al2, 3), bound: 2 });
        blocks.push(Block { name: "N=2, 4 operations (thinned), <=1 deviation", cfg: two(false), histories: sequences(&al2_thin, 4), bound: 1 });
        blocks.push(Block { name: "N=2, 2 operations, <=2 deviations, MemStore", cfg: two(true), histories: sequences(&al2, 2), bound: 2 });
        let al3o = op_alphabet(3, &[Consistency::None, Consistency::One, Consistency::All]);
        blocks.push(Block { name: "N=3, 2 operations (None/One/All), <=2 deviations", cfg: three(true), histories: sequences(&al3o, 2), bound: 2 });
        let al3n: Vec<OpSpec> = al3.iter().copied().filter(|o| !matches!(o.kind, Kind::Put(2) | Kind::Del(2))).collect();
        blocks.push(Block { name: "N=3, 3 operations (one key + bulk), <=1 deviation", cfg: three(false), histories: sequences(&al3n, 3), bound: 1 });
        let mut lagging = three(true);
        lagging.allow_unreachable_node = true;
        blocks.push(Block { name: "N=3, 2 operations, one node unreachable until a chosen moment, <=3 deviations", cfg: lagging, histories: sequences(&al3, 2), bound: 3 });
        let mut lagging3 = three(false);
        lagging3.allow_unreachable_node = true;
        blocks.push(Block { name: "N=3, 3 operations (one key + bulk), one node unreachable, <=2 deviations", cfg: lagging3, histories: sequences(&al3n, 3), bound: 2 });
        for victim in [1usize, 0] {
            let other = 1 - victim;
            for (name, script) in [
                (
                    "N=2, 2 operations, sharp driver: one node misses the first operation (unreachable, batch lost), 55 minutes pass, it receives the second one and restarts; <=2 deviations on top",
                    vec![vec![Scripted::Down(victim)], vec![Scripted::Flush(other), Scripted::Jump, Scripted::Back(victim)], vec![Scripted::Flush(other), Scripted::Restart(victim)]],
                ),
                (
                    "N=2, 2 operations, sharp driver: one node misses the first operation, 55 minutes pass, it receives the second one (no restart); <=2 deviations on top",
                    vec![vec![Scripted::Down(victim)], vec![Scripted::Flush(other), Scripted::Jump, Scripted::Back(victim)], vec![Scripted::Flush(other)]],
                ),
                (
                    "N=2, 3 operations (thinned), sharp driver: one node misses the first operation, 55 minutes pass, it receives the second, restarts, third operation; <=1 deviation on top",
                    vec![vec![Scripted::Down(victim)], vec![Scripted::Flush(other), Scripted::Jump, Scripted::Back(victim)], vec![Scripted::Flush(other), Scripted::Restart(victim)], vec![]],
                ),
            ] {
                let three_ops = name.contains("3 operations");
                let mut sharp = two(false);
                sharp.script = script;
                blocks.push(Block { name, cfg: sharp, histories: if three_ops { sequences(&al2_thin, 3) } else { sequences(&al2, 2) }, bound: if three_ops { 1 } else { 2 } });
            }
        }
        let mut jumpy = two(false);
        jumpy.allow_unreachable_node = true;
        jumpy.time_jumps = true;
        blocks.push(Block { name: "N=2, 2 operations, one node unreachable until a chosen moment, restarts, 55-minute jumps between and after operations, <=3 deviations", cfg: jumpy, histories: sequences(&al2, 2), bound: 3 });
        let mut jumpy3 = two(false);
        jumpy3.allow_unreachable_node = true;
        jumpy3.time_jumps = true;
        blocks.push(Block { name: "N=2, 3 operations (thinned), one node unreachable, restarts, 55-minute jumps, <=2 deviations", cfg: jumpy3, histories: sequences(&al2_thin, 3), bound: 2 });
        {
            let mut al_dup = al2.clone();
            for node in 0..2 {
                for level in [Consistency::None, Consistency::All] {
                    al_dup.push(OpSpec { node, kind: Kind::PutManyDup, level });
                }
            }
            let mut hist: Vec<Vec<OpSpec>> = sequences(&al_dup, 1).into_iter().filter(|h| h.iter().any(|o| o.kind == Kind::PutManyDup)).collect();
            hist.extend(sequences(&al_dup, 2).into_iter().filter(|h| h.iter().any(|o| o.kind == Kind::PutManyDup)));
            blocks.push(Block { name: "N=2, 1-2 operations, at least one put_many carrying the same id twice, <=3 deviations", cfg: two(false), histories: hist, bound: 3 });
        }
        {
            let al2_one: Vec<OpSpec> = al2.iter().copied().filter(|o| matches!(o.kind, Kind::Put(1) | Kind::Del(1))).collect();
            let mut dup = two(false);
            dup.allow_restart = false;
            dup.lose_batches = true;
            dup.late_duplicates = true;
            blocks.push(Block { name: "N=2, 3 single operations on one id, every batch lost, late duplicates of direct messages as events (also after the last operation), <=3 deviations", cfg: dup, histories: sequences(&al2_one, 3), bound: 3 });
        }
        let mut anti = two(false);
        anti.lose_all_direct = true;
        blocks.push(Block { name: "N=2, 3 operations, every direct message and batch lost (anti-entropy only), <=2 deviations", cfg: anti, histories: sequences(&al2, 3), bound: 2 });
        let mut anti4 = two(false);
        anti4.allow_restart = false;
        anti4.lose_all_direct = true;
        blocks.push(Block { name: "N=2, 4 operations (thinned), every direct message and batch lost (anti-entropy only), <=1 deviation", cfg: anti4, histories: sequences(&al2_thin, 4), bound: 1 });
        let mut faulty = two(false);
        faulty.faulty_repairs = true;
        blocks.push(Block { name: "N=2, 1 operation, repair exchanges may lose any of their requests (also after the last operation), <=5 deviations", cfg: faulty, histories: sequences(&al2, 1), bound: 5 });
        let mut faulty2 = two(false);
        faulty2.allow_restart = false;
        faulty2.faulty_repairs = true;
        blocks.push(Block { name: "N=2, 2 operations, repair exchanges may lose any of their requests, <=3 deviations", cfg: faulty2, histories: sequences(&al2, 2), bound: 3 });
        let mut faulty3 = three(false);
        faulty3.faulty_repairs = true;
        blocks.push(Block { name: "N=3, 1 operation, repair exchanges may lose any of their requests, <=4 deviations", cfg: faulty3, histories: sequences(&al3, 1), bound: 4 });
        for skew in [vec![0u64, 30], vec![30, 0]] {
            let mut skewed = two(true);
            skewed.mem_store = false;
            skewed.skew_minutes = skew;
            blocks.push(Block { name: "N=2, 3 operations, one clock 30 min ahead, <=1 deviation", cfg: skewed, histories: sequences(&al2, 3), bound: 1 });
        }
    } else {
        blocks.push(Block { name: "N=2, 2 operations, <=2 deviations", cfg: two(false), histories: sequences(&al2, 2), bound: 2 });
        blocks.push(Block { name: "N=2, 3 operations (thinned), <=1 deviation", cfg: two(false), histories: sequences(&al2_thin, 3), bound: 1 });
        // three operations on ONE id with two deviations (two deletes of different nodes around a
        // put, one message lost and a repair exchange in the middle: added after C01-l)
        let al2_one: Vec<OpSpec> = al2.iter().copied().filter(|o| matches!(o.kind, Kind::Put(1) | Kind::Del(1))).collect();
        blocks.push(Block { name: "N=2, 3 single operations on one id, <=2 deviations", cfg: two(false), histories: sequences(&al2_one, 3), bound: 2 });
        let mut dup = two(false);
        dup.allow_restart = false;
        dup.lose_batches = true;
        dup.late_duplicates = true;
        let al2_one_none: Vec<OpSpec> = al2_one.iter().copied().filter(|o| o.level == Consistency::None).collect();
        blocks.push(Block { name: "N=2, 3 single operations (level None) on one id, every batch lost, late duplicates of direct messages as events (also after the last operation), <=2 deviations", cfg: dup, histories: sequences(&al2_one_none, 3), bound: 2 });
        blocks.push(Block { name: "N=2, 2 operations, <=1 deviation, MemStore", cfg: two(true), histories: sequences(&al2, 2), bound: 1 });
        blocks.push(Block { name: "N=3, 2 operations, <=1 deviation", cfg: three(true), histories: sequences(&al3, 2), bound: 1 });
        let mut lagging = two(false);
        lagging.allow_restart = false;
        lagging.allow_unreachable_node = true;
        blocks.push(Block { name: "N=2, 2 operations, one node unreachable until a chosen moment (it joins after deletes happened), <=2 deviations", cfg: lagging, histories: sequences(&al2, 2), bound: 2 });
        for (name, script) in [
            (
                "N=2, 2 operations, sharp driver: node1 misses the first operation (unreachable, batch lost), 55 minutes pass, it receives the second one and restarts; <=1 deviation on top",
                vec![vec![Scripted::Down(1)], vec![Scripted::Flush(0), Scripted::Jump, Scripted::Back(1)], vec![Scripted::Flush(0), Scripted::Restart(1)]],
            ),
            (
                "N=2, 2 operations, sharp driver: node1 misses the first operation, 55 minutes pass, it receives the second one (no restart); <=1 deviation on top",
                vec![vec![Scripted::Down(1)], vec![Scripted::Flush(0), Scripted::Jump, Scripted::Back(1)], vec![Scripted::Flush(0)]],
            ),
        ] {
            let mut sharp = two(false);
            sharp.script = script;
            blocks.push(Block { name, cfg: sharp, histories: sequences(&al2, 2), bound: 1 });
        }
        let mut jumpy = two(false);
        jumpy.allow_unreachable_node = true;
        jumpy.time_jumps = true;
        let al2_none = op_alphabet(2, &[Consistency::None]);
        blocks.push(Block { name: "N=2, 2 operations (level None), one node unreachable until a chosen moment, restarts, 55-minute jumps between and after operations, <=3 deviations", cfg: jumpy, histories: sequences(&al2_none, 2), bound: 3 });
        {
            // histories containing a put_many that carries one id twice (added after C01-h)
            let mut al_dup = al2.clone();
            for node in 0..2 {
                for level in [Consistency::None, Consistency::All] {
                    al_dup.push(OpSpec { node, kind: Kind::PutManyDup, level });
                }
            }
            let mut hist: Vec<Vec<OpSpec>> = sequences(&al_dup, 1).into_iter().filter(|h| h.iter().any(|o| o.kind == Kind::PutManyDup)).collect();
            hist.extend(sequences(&al_dup, 2).into_iter().filter(|h| h.iter().any(|o| o.kind == Kind::PutManyDup)));
            blocks.push(Block { name: "N=2, 1-2 operations, at least one put_many carrying the same id twice, <=2 deviations", cfg: two(false), histories: hist, bound: 2 });
        }
        let mut anti = two(false);
        anti.allow_restart = false;
        anti.lose_all_direct = true;
        blocks.push(Block { name: "N=2, 3 operations (thinned), every direct message and batch lost (anti-entropy only), <=1 deviation", cfg: anti, histories: sequences(&al2_thin, 3), bound: 1 });
        let mut faulty = two(false);
        faulty.allow_restart = false;
        faulty.faulty_repairs = true;
        blocks.push(Block { name: "N=2, 1 operation, repair exchanges may lose any of their requests (also after the last operation), <=4 deviations", cfg: faulty, histories: sequences(&al2, 1), bound: 4 });
        let mut faulty2 = two(false);
        faulty2.allow_restart = false;
        faulty2.faulty_repairs = true;
        blocks.push(Block { name: "N=2, 2 operations, repair exchanges may lose any of their requests, <=2 deviations", cfg: faulty2, histories: sequences(&al2, 2), bound: 2 });
        let mut skewed = two(false);
        skewed.skew_minutes = vec![0, 30];
        blocks.push(Block { name: "N=2, 2 operations, node1's clock 30 min ahead, <=1 deviation", cfg: skewed, histories: sequences(&al2, 2), bound: 1 });
    }

    // debugging aid: VERIF_C01_BLOCKS=<substring> runs only the matching blocks (such a run
    // is marked as a machinery failure: it decides nothing)
    let only = std::env::var("VERIF_C01_BLOCKS").ok();
    if let Some(f) = &only {
        blocks.retain(|b| b.name.contains(f.as_str()));
        report.machinery_error(format!("filtered run (VERIF_C01_BLOCKS={f}): {} block(s)", blocks.len()));
    }
    for b in &blocks {
        let before = summary.executions;
        // histories are independent: explore each with the deviation bound
        let cfg = ExploreCfg { max_deviations: Some(b.bound), max_executions: 50_000_000, determinism_check_every: 499 };
        // parallelism across histories (each explore() call is itself parallel; keep it simple: sequential over histories)
        let chunk_stats = vkit::par::par_map(&b.histories, |_, ops| {
            let mut st = Stats::default();
            let mut sum = vkit::e2::Summary::default();
            // sequential DFS inside a worker
            let mut stack: Vec<Vec<usize>> = vec![vec![]];
            let mut n = 0u64;
            while let Some(prefix) = stack.pop() {
                let (run, out) = run_one(&b.cfg, ops, &prefix);
                n += 1;
                sum.executions += 1;
                sum.max_steps = sum.max_steps.max(run.choices.len());
                if run.prefix_misfit {
                    sum.prefix_misfits += 1;
                }
                if cfg.determinism_check_every > 0 && n % cfg.determinism_check_every == 1 {
                    let (run2, out2) = run_one(&b.cfg, ops, &prefix);
                    if run2 != run || out2 != out {
                        sum.nondeterministic += 1;
                    }
                }
                judge(&b.cfg, ops, &run, &out, &mut st);
                let base_dev = prefix.iter().filter(|c| **c != 0).count();
                if base_dev < b.bound {
                    for i in prefix.len()..run.widths.len() {
                        for alt in 1..run.widths[i] {
                            let mut p = run.choices[..i].to_vec();
                            p.push(alt);
                            stack.push(p);
                        }
                    }
                }
            }
            (st, sum)
        });
        for (st, sum) in chunk_stats {
            total.merge(st);
            summary.executions += sum.executions;
            summary.max_steps = summary.max_steps.max(sum.max_steps);
            summary.nondeterministic += sum.nondeterministic;
            summary.prefix_misfits += sum.prefix_misfits;
        }
        blocks_json.push(
            J::obj()
                .set("block", b.name)
                .set("histories", b.histories.len())
                .set("deviation_bound", b.bound)
                .set("executions", summary.executions - before),
        );
        if let Some(h) = b.histories.get(b.histories.len() / 2) {
            let (run, out) = run_one(&b.cfg, h, &[0, 1]);
            total.sample(|| case_json(&b.cfg, h, &run, &out));
        }
    }

    // ---- concurrency block
    {
        let ccfg = ExecCfg { allow_unreachable_node: false, faulty_repairs: false, time_jumps: false, script: vec![], skew_minutes: vec![], fine_grained: tier.is_thorough(), prelude: vec![], lose_all_direct: false, lose_batches: false, late_duplicates: false, n_nodes: 2, mem_store: false, allow_restart: false, check_side_conditions_every_event: false };
        let base = op_alphabet(2, &[Consistency::None, Consistency::All]);
        let mut pairs: Vec<Vec<OpSpec>> = Vec::new();
        for a in &base {
            for b in &base {
                // same node (batch order, first use of the keyspace) or different nodes
                if a.node == 0 && (tier.is_thorough() || (matches!(a.kind, Kind::Put(1) | Kind::Del(1) | Kind::PutMany) && matches!(b.kind, Kind::Put(1) | Kind::Del(1) | Kind::DelMany))) {
                    pairs.push(vec![*a, *b]);
                }
            }
        }
        // a repair exchange racing with a write at the node being read, and with a write at the repairing node
        for kind in [Kind::Put(1), Kind::Del(1), Kind::PutMany] {
            pairs.push(vec![OpSpec { node: 0, kind: Kind::RepairFrom(1), level: Consistency::None }, OpSpec { node: 1, kind, level: Consistency::None }]);
            pairs.push(vec![OpSpec { node: 0, kind: Kind::RepairFrom(1), level: Consistency::None }, OpSpec { node: 0, kind, level: Consistency::None }]);
        }
        let before = summary.executions;
        let conc_bound = std::env::var("VERIF_C01_CONC_BOUND").ok().and_then(|v| v.parse().ok()).unwrap_or(tier.pick(3usize, 4));
        let lossy = ExecCfg { allow_unreachable_node: false, faulty_repairs: false, time_jumps: false, script: vec![], skew_minutes: vec![], fine_grained: false, prelude: vec![], lose_all_direct: true, lose_batches: false, late_duplicates: false, n_nodes: 2, mem_store: false, allow_restart: false, check_side_conditions_every_event: false };
        // the repair races additionally start from a keyspace that already exists at the source
        // and has not been synchronised yet (otherwise the repairing node would not fetch it)
        let with_prelude = |base: &ExecCfg| ExecCfg {
            allow_unreachable_node: false,
            faulty_repairs: false,
            time_jumps: false,
            script: vec![],
            skew_minutes: vec![],
            fine_grained: false,
            prelude: vec![OpSpec { node: 1, kind: Kind::Put(2), level: Consistency::None }],
            lose_all_direct: base.lose_all_direct, lose_batches: false, late_duplicates: false,
            n_nodes: 2,
            mem_store: false,
            allow_restart: false,
            check_side_conditions_every_event: false,
        };
        let ccfg_p = with_prelude(&ccfg);
        let lossy_p = with_prelude(&lossy);
        let mut work: Vec<(Vec<OpSpec>, u8)> = pairs.iter().flat_map(|p| [(p.clone(), 0u8), (p.clone(), 1u8)]).collect();
        for p in pairs.iter().filter(|p| p.iter().any(|o| matches!(o.kind, Kind::RepairFrom(_)))) {
            work.push((p.clone(), 2));
            work.push((p.clone(), 3));
        }
        // both halves of one exchange (removals and modifications run as separate tasks), and
        // two exchanges in opposite directions at once: node0 holds key 1 live, node1 has
        // deleted it later and written key 2; nothing was replicated directly
        let lossy_p3 = ExecCfg {
            prelude: vec![
                OpSpec { node: 0, kind: Kind::Put(1), level: Consistency::None },
                OpSpec { node: 1, kind: Kind::Del(1), level: Consistency::None },
                OpSpec { node: 1, kind: Kind::Put(2), level: Consistency::None },
            ],
            ..with_prelude(&lossy)
        };
        let repair = |node: usize, from: usize| OpSpec { node, kind: Kind::RepairFrom(from), level: Consistency::None };
        for second in [repair(1, 0), OpSpec { node: 1, kind: Kind::Del(2), level: Consistency::None }, OpSpec { node: 0, kind: Kind::Put(1), level: Consistency::None }] {
            work.push((vec![repair(0, 1), second], 4));
        }
        // a repair exchange racing with a *directly replicated* write at the node being read:
        // the direct message can land at the repairing node between its `Diff` and the bulk
        // request that applies the difference, so that the batch carries a document the node
        // already holds next to one it lacks; every distributor batch is lost, so the lacking
        // one can only arrive through this and later exchanges
        let direct_p5 = ExecCfg { lose_batches: true, late_duplicates: false, fine_grained: true, ..with_prelude(&ccfg) };
        let direct_p6 = ExecCfg {
            prelude: vec![
                OpSpec { node: 1, kind: Kind::Put(1), level: Consistency::All },
                OpSpec { node: 1, kind: Kind::Put(2), level: Consistency::All },
                OpSpec { node: 1, kind: Kind::Del(2), level: Consistency::None },
            ],
            ..direct_p5.clone()
        };
        for kind in [Kind::Put(1), Kind::Del(1), Kind::PutMany, Kind::DelMany] {
            work.push((vec![repair(0, 1), OpSpec { node: 1, kind, level: Consistency::All }], 5));
        }
        for kind in [Kind::Del(1), Kind::Put(1), Kind::DelMany] {
            work.push((vec![repair(0, 1), OpSpec { node: 1, kind, level: Consistency::All }], 6));
        }
        if only.is_some() {
            work.clear();
        }
        if std::env::var("VERIF_C01_ONLY_REPAIR_RACES").is_ok() {
            work.retain(|(p, v)| *v == 3 && matches!(p[1].kind, Kind::Put(1)) && p[1].node == 1);
        }
        let parts = vkit::par::par_map(&work, |_, (pair, variant)| {
            let ccfg = match variant {
                0 => &ccfg,
                1 => &lossy,
                2 => &ccfg_p,
                4 => &lossy_p3,
                5 => &direct_p5,
                6 => &direct_p6,
                _ => &lossy_p,
            };
            let mut st = Stats::default();
            let mut n = 0u64;
            let mut nondet = 0u64;
            let mut stack: Vec<Vec<usize>> = vec![vec![]];
            while let Some(prefix) = stack.pop() {
                let (run, out) = run_concurrent(ccfg, pair, &prefix);
                n += 1;
                if n % 211 == 1 {
                    let (run2, out2) = run_concurrent(ccfg, pair, &prefix);
                    if run2 != run || out2 != out {
                        nondet += 1;
                    }
                }
                st.inc("concurrent_executions");
                judge(ccfg, pair, &run, &out, &mut st);
                if prefix.iter().filter(|c| **c != 0).count() >= conc_bound {
                    continue;
                }
                for i in prefix.len()..run.widths.len() {
                    for alt in 1..run.widths[i] {
                        let mut p = run.choices[..i].to_vec();
                        p.push(alt);
                        stack.push(p);
                    }
                }
            }
            (st, n, nondet)
        });
        for (st, n, nondet) in parts {
            total.merge(st);
            summary.executions += n;
            summary.nondeterministic += nondet;
        }
        blocks_json.push(
            J::obj()
                .set("block", "concurrency: two client tasks (two operations; a repair cycle racing with an operation; two repair cycles in opposite directions; one exchange whose removal and modification halves both have work), await-point interleavings (E2, fine-grained for repairs), then the end phase once with healthy replication and once with every direct message and batch lost")
                .set("histories", work.len())
                .set("deviation_bound", format!("{conc_bound} preemptions / ordering deviations"))
                .set("executions", summary.executions - before),
        );
    }

    let traces = total.distinct_count("event_traces");
    let outcomes = total.distinct_count("outcomes");
    let with_dev = total.get("executions_with_deviations");
    let events_executed = total.get("events_executed");
    total.flush_into(&mut report);
    report.cover("states", traces);
    report.cover("transitions", events_executed);
    report.cover("traces_validated_against_impl", summary.executions);
    report.cover("evaluations", summary.executions);
    report.cover("distinct_nontrivial", traces);
    report.cover(
        "rule",
        "every history of the operation alphabet (per block) x every set of environment deviations within the bound, \
         executed on a real in-process cluster through the public store handle; states = distinct event traces; \
         transitions = events executed (operations, flushes, repairs, restarts, closing rounds)",
    );
    report.cover("blocks", J::Arr(blocks_json));
    report.cover("distinct_converged_results", outcomes);
    report.cover("max_choice_points_per_execution", summary.max_steps);
    report.cover("exhaustive", true);
    report.guard(summary.nondeterministic == 0, "an execution did not reproduce when run twice with the same choices");
    report.guard(summary.prefix_misfits == 0, "a choice prefix did not fit its re-execution");
    report.guard_nonzero("guard_executions_with_deviations", with_dev);
    report.guard(outcomes >= 4, "fewer than 4 distinct converged results");
    report.assume("all operations of a history are issued within one forgiveness period (the injected wall clock advances 4 ms per event)");
    report.assume("the requests of a repair exchange are faulted only in the dedicated blocks (mid-history exchanges); the closing exchanges always complete");
    report.assume("membership is fixed and known to every node (joins/leaves are C16's subject)");
    report.finish()
}

pub fn replay(case: &J) -> i32 {
    let n_nodes = case.get("nodes").and_then(|v| v.as_u64()).unwrap_or(2) as usize;
    let levels = [Consistency::None, Consistency::One, Consistency::All];
    let al = op_alphabet(n_nodes, &levels);
    let ops: Vec<OpSpec> = case
        .get("operations")
        .and_then(|v| v.as_arr())
        .unwrap_or(&[])
        .iter()
        .filter_map(|o| {
            let repairs = (0..n_nodes).flat_map(|a| (0..n_nodes).map(move |b| OpSpec { node: a, kind: Kind::RepairFrom(b), level: Consistency::None }));
            let dups = (0..n_nodes).flat_map(|a| levels.iter().map(move |l| OpSpec { node: a, kind: Kind::PutManyDup, level: *l }));
            al.iter().copied().chain(repairs).chain(dups).find(|a| op_json(a).as_str() == o.as_str())
        })
        .collect();
    let choices: Vec<usize> = case
        .get("choices")
        .and_then(|v| v.as_arr())
        .unwrap_or(&[])
        .iter()
        .filter_map(|v| v.as_u64().map(|x| x as usize))
        .collect();
    let al_for_prelude = op_alphabet(n_nodes, &levels);
    let cfg = ExecCfg {
        allow_unreachable_node: case.get("allow_unreachable_node").and_then(|v| v.as_bool()).unwrap_or(false),
        faulty_repairs: case.get("faulty_repairs").and_then(|v| v.as_bool()).unwrap_or(false),
        time_jumps: case.get("time_jumps").and_then(|v| v.as_bool()).unwrap_or(false),
        script: case
            .get("script")
            .and_then(|v| v.as_arr())
            .unwrap_or(&[])
            .iter()
            .map(|g| g.as_arr().unwrap_or(&[]).iter().filter_map(|e| e.as_str().and_then(Scripted::parse)).collect())
            .collect(),
        skew_minutes: case.get("skew_minutes").and_then(|v| v.as_arr()).unwrap_or(&[]).iter().filter_map(|v| v.as_u64()).collect(),
        fine_grained: case.get("fine_grained").and_then(|v| v.as_bool()).unwrap_or(false),
        prelude: case.get("prelude").and_then(|v| v.as_arr()).unwrap_or(&[]).iter().filter_map(|o| al_for_prelude.iter().copied().find(|a| op_json(a).as_str() == o.as_str())).collect(),
        lose_all_direct: case.get("lose_all_direct").and_then(|v| v.as_bool()).unwrap_or(false),
        lose_batches: case.get("lose_batches").and_then(|v| v.as_bool()).unwrap_or(false),
        late_duplicates: case.get("late_duplicates").and_then(|v| v.as_bool()).unwrap_or(false),
        n_nodes,
        mem_store: case.get("store").and_then(|v| v.as_str()) == Some("MemStore"),
        allow_restart: case.get("restart_events_enabled").and_then(|v| v.as_bool()).unwrap_or(true),
        check_side_conditions_every_event: true,
    };
    let concurrent = case.get("concurrent").and_then(|v| v.as_bool()).unwrap_or(false);
    let go = |c: &[usize]| if concurrent { run_concurrent(&cfg, &ops, c) } else { run_one(&cfg, &ops, c) };
    let (run, out) = go(&choices);
    let (run2, out2) = go(&choices);
    if run != run2 || out != out2 {
        eprintln!("replay is not deterministic");
        return 2;
    }
    for e in &out.events {
        println!("{e}");
    }
    for (i, r) in out.reads.iter().enumerate() {
        println!("node{i} reads {}", docs_json(r).to_string_compact());
    }
    println!("expected    {}", docs_json(&out.reference).to_string_compact());
    let mut st = Stats::default();
    judge(&cfg, &ops, &run, &out, &mut st);
    for f in &st.found {
        println!("{}: {}", f.key, f.what);
    }
    (!st.found.is_empty()) as i32
}
