//! C02 — on each node the replicated metadata and the persisted store never disagree.
//!
//! Engine E1 by replay (Layer B, one node): requests are sent to the real keyspace actor
//! through its mailbox — Set, Del, MultiSet (including the same id twice, in both stamp
//! orders), MultiDel, PurgeDeletes — with stamps from a grid that has gaps below and above
//! the forgiveness period, two origins, both sources, any arrival order, and for every
//! storage call the answer ok / fail-before / fail-after-k (exactly the written ids
//! reported). After EVERY request, successful or failed, the actor's own `Serialize` reply
//! is decoded and compared with what the store holds.

use std::marker::PhantomData;
use std::sync::Arc;

use datacake_crdt::{HLCTimestamp, Key};
use datacake_eventual_consistency::test_utils::MemStore;
use datacake_eventual_consistency::verif as ec;
use datacake_eventual_consistency::{Document, DocumentMetadata, Storage};
use datacake_node::Clock;
use smallvec::SmallVec;
use vkit::bfs::{bfs_replay, BfsCfg};
use vkit::{fp128, Report, Stats, Tier, J};

use crate::crdt::*;
use crate::stores::{read_rows, Fault, FaultStore, MapStore};
use crate::world::{decode_set, Wall};

pub const KS: &str = "ks";

#[derive(Clone, Debug, PartialEq, Eq, Hash)]
pub enum Req {
    Set { op: usize, src: usize },
    Del { op: usize, src: usize },
    MultiSet { ops: Vec<usize>, src: usize },
    MultiDel { ops: Vec<usize>, src: usize },
    Purge,
}

#[derive(Clone, Debug, PartialEq, Eq, Hash)]
pub struct Step {
    pub req: Req,
    pub fault: Fault,
}

/// Operation pool: the C04 pool (both origins touch both keys, >1h gaps) plus two late
/// operations per origin so that purges really fire.
pub fn pool() -> Vec<Op> {
    let mut p = crate::c04::pool();
    p.push(Op::ins(1, ts_min(200, 0, 1)));
    p.push(Op::ins(2, ts_min(205, 0, 1)));
    // put_many / del_many stamp every document of a call with ONE clock reading: the same
    // stamp on two different ids is something the public API really produces
    p.push(Op::ins(2, ts_min(200, 0, 1)));
    p.push(Op::del(2, ts_min(50, 0, 1)));
    // a third id: lets one source see a late stamp of node 1 without touching keys 1 and 2,
    // so that a bulk call on the other source can carry two entries of node 1 more than an
    // hour apart whose fate depends on the order they are folded into the set (C02-g)
    p.push(Op::ins(3, ts_min(205, 0, 1)));
    // a delete carrying exactly the stamp of a put of the same id (stamps are arbitrary in
    // this property): on a tie the set prefers the insert while will_apply refuses it (C02-i)
    p.push(Op::del(1, ts_min(200, 0, 1)));
    p
}

pub fn payload_for(op: &Op) -> Vec<u8> {
    format!("doc {} written at {}", op.key, op.ts).into_bytes()
}

fn step_json(pool: &[Op], s: &Step) -> J {
    let ops = |v: &Vec<usize>| J::Arr(v.iter().map(|i| pool[*i].to_json().set("pool_index", *i)).collect());
    let j = match &s.req {
        Req::Set { op, src } => J::obj().set("request", "Set").set("doc", pool[*op].to_json().set("pool_index", *op)).set("src", *src),
        Req::Del { op, src } => J::obj().set("request", "Del").set("doc", pool[*op].to_json().set("pool_index", *op)).set("src", *src),
        Req::MultiSet { ops: o, src } => J::obj().set("request", "MultiSet").set("docs", ops(o)).set("src", *src),
        Req::MultiDel { ops: o, src } => J::obj().set("request", "MultiDel").set("docs", ops(o)).set("src", *src),
        Req::Purge => J::obj().set("request", "PurgeDeletes"),
    };
    j.set("storage_answer", format!("{:?}", s.fault))
}

pub fn history_json(pool: &[Op], h: &[Step], inner: &str) -> J {
    J::obj()
        .set("inner_store", inner)
        .set("requests", J::Arr(h.iter().map(|s| step_json(pool, s)).collect()))
}

pub fn step_from_json(j: &J) -> Option<Step> {
    let idx = |d: &J| d.get("pool_index").and_then(|v| v.as_u64()).map(|v| v as usize);
    let src = j.get("src").and_then(|v| v.as_u64()).unwrap_or(0) as usize;
    let many = |k: &str| -> Option<Vec<usize>> { Some(j.get(k)?.as_arr()?.iter().filter_map(idx).collect()) };
    let req = match j.get("request")?.as_str()? {
        "Set" => Req::Set { op: idx(j.get("doc")?)?, src },
        "Del" => Req::Del { op: idx(j.get("doc")?)?, src },
        "MultiSet" => Req::MultiSet { ops: many("docs")?, src },
        "MultiDel" => Req::MultiDel { ops: many("docs")?, src },
        _ => Req::Purge,
    };
    let f = j.get("storage_answer")?.as_str()?;
    let num = |s: &str| s.trim_end_matches(')').rsplit('(').next().and_then(|n| n.parse::<usize>().ok()).unwrap_or(0);
    let fault = if f == "None" {
        Fault::None
    } else if f == "FailBefore" {
        Fault::FailBefore
    } else if f.starts_with("FailAfter") {
        Fault::FailAfter(num(f))
    } else if f.starts_with("FailOnly") {
        Fault::FailOnly(num(f))
    } else {
        Fault::ParkAfter(num(f))
    };
    Some(Step { req, fault })
}

/// The requests enabled in every state (the alphabet does not depend on the state, except
/// that fault placements depend on the batch length).
pub fn alphabet(pool: &[Op], thorough: bool) -> Vec<Step> {
    let mut out = Vec::new();
    let single_faults = [Fault::None, Fault::FailBefore];
    for (i, op) in pool.iter().enumerate() {
        for src in 0..2 {
            for fault in single_faults {
                let req = if op.del { Req::Del { op: i, src } } else { Req::Set { op: i, src } };
                out.push(Step { req, fault });
            }
        }
    }
    // bulk requests carrying a single document (what a repair of one key or a put_many of
    // one document sends; the actor may treat this size specially), and an empty one
    for (i, op) in pool.iter().enumerate() {
        for src in 0..2 {
            for fault in single_faults {
                let req = if op.del { Req::MultiDel { ops: vec![i], src } } else { Req::MultiSet { ops: vec![i], src } };
                out.push(Step { req, fault });
            }
        }
    }
    out.push(Step { req: Req::MultiSet { ops: vec![], src: 1 }, fault: Fault::None });
    out.push(Step { req: Req::MultiDel { ops: vec![], src: 1 }, fault: Fault::None });
    // bulk requests: ordered pairs that share a key or an origin (the interesting ones),
    // and in thorough every ordered pair plus a few triples
    for del in [false, true] {
        let idx: Vec<usize> = (0..pool.len()).filter(|i| pool[*i].del == del).collect();
        for &a in &idx {
            for &b in &idx {
                if a == b {
                    continue;
                }
                let related = pool[a].key == pool[b].key || pool[a].origin() == pool[b].origin();
                if !related && !thorough {
                    continue;
                }
                for src in 0..2 {
                    for fault in [Fault::None, Fault::FailBefore, Fault::FailAfter(1), Fault::FailOnly(0)] {
                        // (the same id twice combined with a partial failure used to be left
                        // out: the bulk error contract reports successes by id, which was
                        // ambiguous until fix F15 made the actor write one version per id)
                        let ops = vec![a, b];
                        let req = if del { Req::MultiDel { ops, src } } else { Req::MultiSet { ops, src } };
                        out.push(Step { req, fault });
                    }
                }
            }
        }
        // the same id twice followed by a document with another id, the storage call failing
        // at (or writing everything except) that last document: storage has then written both
        // versions of the first id and reports it once per write - unambiguous, unlike a
        // failure between the two versions (added after the seeded change C02-e)
        for &a in &idx {
            for &b in &idx {
                if a == b || pool[a].key != pool[b].key {
                    continue;
                }
                let Some(&c) = idx.iter().find(|c| pool[**c].key != pool[a].key) else { continue };
                for fault in [Fault::FailAfter(2), Fault::FailOnly(2)] {
                    let ops = vec![a, b, c];
                    let req = if del { Req::MultiDel { ops, src: 1 } } else { Req::MultiSet { ops, src: 1 } };
                    out.push(Step { req, fault });
                }
            }
        }
        if thorough {
            for w in idx.windows(3) {
                for order in [[0, 1, 2], [2, 1, 0], [1, 2, 0]] {
                    let ops: Vec<usize> = order.iter().map(|i| w[*i]).collect();
                    for fault in [Fault::None, Fault::FailAfter(1), Fault::FailAfter(2), Fault::FailOnly(0), Fault::FailOnly(1)] {
                        let req = if del { Req::MultiDel { ops: ops.clone(), src: 1 } } else { Req::MultiSet { ops: ops.clone(), src: 1 } };
                        out.push(Step { req, fault });
                    }
                }
            }
        }
    }
    for fault in [Fault::None, Fault::FailBefore, Fault::FailAfter(1), Fault::FailOnly(0)] {
        out.push(Step { req: Req::Purge, fault });
    }
    out
}

type Rows = std::collections::BTreeMap<Key, (HLCTimestamp, Option<Vec<u8>>)>;

#[derive(Debug, Clone, PartialEq, Eq, Hash)]
pub struct Observed {
    pub live: Vec<(Key, HLCTimestamp)>,
    pub dead: Vec<(Key, HLCTimestamp)>,
    pub rows_live: Vec<(Key, HLCTimestamp)>,
    pub rows_dead: Vec<(Key, HLCTimestamp)>,
    pub versions: (Vec<Vec<(u8, HLCTimestamp)>>, Vec<(u8, HLCTimestamp)>),
    pub payload_ok: bool,
}

pub async fn send_request<S: Storage>(
    ks: &crate::world::Mailbox<S>,
    pool: &[Op],
    req: &Req,
) -> Result<(), String> {
    let doc = |i: usize| Document::new(pool[i].key, pool[i].ts, payload_for(&pool[i]));
    let meta = |i: usize| DocumentMetadata::new(pool[i].key, pool[i].ts);
    match req {
        Req::Set { op, src } => ks
            .send(ec::Set { source: *src, doc: doc(*op), ctx: None, _marker: PhantomData::<S> })
            .await
            .map_err(|e| e.to_string()),
        Req::Del { op, src } => ks
            .send(ec::Del { source: *src, doc: meta(*op), _marker: PhantomData::<S> })
            .await
            .map_err(|e| e.to_string()),
        Req::MultiSet { ops, src } => ks
            .send(ec::MultiSet {
                source: *src,
                docs: ops.iter().map(|i| doc(*i)).collect::<SmallVec<[Document; 4]>>(),
                ctx: None,
                _marker: PhantomData::<S>,
            })
            .await
            .map_err(|e| e.to_string()),
        Req::MultiDel { ops, src } => ks
            .send(ec::MultiDel {
                source: *src,
                docs: ops.iter().map(|i| meta(*i)).collect::<SmallVec<[DocumentMetadata; 4]>>(),
                _marker: PhantomData::<S>,
            })
            .await
            .map_err(|e| e.to_string()),
        Req::Purge => ks.send(ec::PurgeDeletes(PhantomData::<S>)).await.map_err(|e| e.to_string()),
    }
}

pub async fn observe<S: Storage>(ks: &crate::world::Mailbox<S>, store: &S, pool: &[Op]) -> Result<Observed, String> {
    let bytes = ks.send(ec::Serialize).await.map_err(|e| e.to_string())?;
    let set = decode_set(&bytes)?;
    let snap = set.verif_snapshot();
    let rows: Rows = read_rows(store, KS).await?;
    let mut payload_ok = true;
    for (id, (ts, data)) in &rows {
        if let Some(d) = data {
            let expect = pool.iter().find(|o| o.key == *id && o.ts == *ts && !o.del).map(payload_for);
            if expect.as_deref() != Some(d.as_slice()) {
                payload_ok = false;
            }
        }
    }
    Ok(Observed {
        live: snap.entries.clone(),
        dead: snap.dead.clone(),
        rows_live: rows.iter().filter(|(_, (_, d))| d.is_some()).map(|(k, (t, _))| (*k, *t)).collect(),
        rows_dead: rows.iter().filter(|(_, (_, d))| d.is_none()).map(|(k, (t, _))| (*k, *t)).collect(),
        versions: (snap.max_stamps, snap.safe_stamps),
        payload_ok,
    })
}

/// Replays a history on a fresh actor and judges the state after its last request.
async fn execute<I>(pool: &[Op], history: &[Step], inner: Arc<I>, inner_name: &str, st: &mut Stats) -> Option<u128>
where
    I: Storage,
    I::Error: std::fmt::Display,
{
    let _wall = Wall::start();
    let clock = Clock::new(9);
    let store = Arc::new(FaultStore::new(inner));
    let group = ec::KeyspaceGroup::new(store.clone(), clock).await;
    let ks = group.get_or_create_keyspace(KS).await;
    let mut last_reply = Ok(());
    for step in history {
        store.plan([step.fault]);
        last_reply = send_request(&ks, pool, &step.req).await;
        store.plan([]);
    }
    let obs = match observe(&ks, store.as_ref(), pool).await {
        Ok(o) => o,
        Err(e) => {
            st.violation("observation-failed", || e.clone(), || history_json(pool, history, inner_name));
            return None;
        },
    };
    let Some(last) = history.last() else {
        return Some(fp128(&obs));
    };
    st.inc("transitions");
    if last.fault != Fault::None {
        st.inc("requests_with_storage_failure");
    }
    if last_reply.is_err() {
        st.inc("requests_answered_with_error");
    }
    let shape = format!(
        "{}/{}",
        match &last.req {
            Req::Set { .. } => "set",
            Req::Del { .. } => "del",
            Req::MultiSet { ops, .. } => {
                if ops.iter().map(|i| pool[*i].key).collect::<std::collections::BTreeSet<_>>().len() < ops.len() {
                    "multi-set-same-id-twice"
                } else {
                    "multi-set"
                }
            },
            Req::MultiDel { ops, .. } => {
                if ops.iter().map(|i| pool[*i].key).collect::<std::collections::BTreeSet<_>>().len() < ops.len() {
                    "multi-del-same-id-twice"
                } else {
                    "multi-del"
                }
            },
            Req::Purge => "purge",
        },
        match last.fault {
            Fault::None => "storage-ok",
            Fault::FailBefore => "storage-fails-before",
            Fault::FailAfter(_) => "storage-fails-part-way",
            Fault::FailOnly(_) => "storage-fails-one-document",
            Fault::ParkAfter(_) => "parked",
        }
    );
    let case = || history_json(pool, history, inner_name);
    let fmt = |v: &Vec<(Key, HLCTimestamp)>| v.iter().map(|(k, t)| format!("{k}@{t}")).collect::<Vec<_>>().join(" ");
    if obs.live != obs.rows_live {
        st.violation(
            &format!("live-entries-differ/{shape}"),
            || format!("set holds live [{}] but storage holds documents [{}]", fmt(&obs.live), fmt(&obs.rows_live)),
            case,
        );
    }
    if obs.dead != obs.rows_dead {
        st.violation(
            &format!("tombstones-differ/{shape}"),
            || format!("set holds tombstones [{}] but storage records tombstones [{}]", fmt(&obs.dead), fmt(&obs.rows_dead)),
            case,
        );
    }
    if !obs.payload_ok {
        st.violation(
            &format!("stored-bytes-belong-to-another-write/{shape}"),
            || "a stored document's bytes are not those of the write whose stamp it carries".to_string(),
            case,
        );
    }
    if obs.live == obs.rows_live && obs.dead == obs.rows_dead && obs.payload_ok {
        Some(fp128(&obs))
    } else {
        None // do not explore beyond a broken state: one defect, one report
    }
}

fn explore<I, F>(
    name: &'static str,
    make_inner: F,
    pool: &[Op],
    al: &[Step],
    depth: usize,
    max_states: usize,
) -> (Stats, vkit::bfs::BfsSummary)
where
    I: Storage,
    I::Error: std::fmt::Display,
    F: Fn() -> Arc<I> + Sync,
{
    let cfg = BfsCfg { max_depth: depth, max_states };
    bfs_replay(
        &cfg,
        |_h: &[Step]| al.to_vec(),
        |h, st| vkit::e2::block_on_fresh(execute(pool, h, make_inner(), name, st)),
    )
}

/// Purges of many tombstones at once (a handler may batch its storage calls): n documents
/// written and deleted by one origin, the origin moves on by more than an hour on both
/// sources, then `PurgeDeletes` with the storage removing only part of what it is asked to;
/// the set and the store must agree after the failed purge and after a second, healthy one.
async fn large_purge(n: usize, fault: Fault, st: &mut Stats) {
    let _wall = Wall::start();
    let mut pool: Vec<Op> = Vec::new();
    for i in 0..n {
        pool.push(Op::ins(100 + i as u64, ts_min(0, i as u16, 1)));
    }
    for i in 0..n {
        pool.push(Op::del(100 + i as u64, ts_min(5, i as u16, 1)));
    }
    pool.push(Op::ins(1, ts_min(70, 0, 1)));
    pool.push(Op::ins(2, ts_min(75, 0, 1)));
    let clock = Clock::new(9);
    let store = Arc::new(FaultStore::new(Arc::new(MapStore::default())));
    let group = ec::KeyspaceGroup::new(store.clone(), clock).await;
    let ks = group.get_or_create_keyspace(KS).await;
    let steps = [
        Req::MultiSet { ops: (0..n).collect(), src: 0 },
        Req::MultiDel { ops: (n..2 * n).collect(), src: 0 },
        Req::Set { op: 2 * n, src: 0 },
        Req::Set { op: 2 * n + 1, src: 1 },
    ];
    for r in &steps {
        let _ = send_request(&ks, &pool, r).await;
    }
    let case = || J::obj().set("scenario", "large purge").set("tombstones", n).set("storage_answer_to_the_purge", format!("{fault:?}"));
    let fmt = |v: &Vec<(Key, HLCTimestamp)>| format!("{} entries, first {:?}", v.len(), v.iter().take(3).map(|(k, t)| format!("{k}@{t}")).collect::<Vec<_>>());
    for (phase, f) in [("failed-purge", fault), ("second-purge", Fault::None)] {
        store.plan([f]);
        let _ = send_request(&ks, &pool, &Req::Purge).await;
        store.plan([]);
        st.inc("large_purges");
        let obs = match observe(&ks, store.as_ref(), &pool).await {
            Ok(o) => o,
            Err(e) => {
                st.violation("observation-failed", || e.clone(), case);
                return;
            },
        };
        if phase == "failed-purge" && obs.dead.len() < n {
            st.inc("large_purges_that_removed_something");
        }
        if obs.live != obs.rows_live {
            st.violation(&format!("live-entries-differ/large-purge/{phase}"), || format!("set live: {}; storage documents: {}", fmt(&obs.live), fmt(&obs.rows_live)), case);
        }
        if obs.dead != obs.rows_dead {
            st.violation(&format!("tombstones-differ/large-purge/{phase}"), || format!("set tombstones: {}; storage tombstones: {}", fmt(&obs.dead), fmt(&obs.rows_dead)), case);
        }
    }
}

pub fn run(tier: Tier) -> i32 {
    let mut report = Report::new("C02", tier, "model_checking");
    let pool = pool();
    let al = alphabet(&pool, tier.is_thorough());
    let mut total = Stats::default();
    let mut parts = Vec::new();

    let (depth_map, depth_mem) = tier.pick((3, 2), (4, 3));
    let cap = tier.pick(6_000, 60_000);
    let (st, sum) = explore("harness map store", || Arc::new(MapStore::default()), &pool, &al, depth_map, cap);
    parts.push(("harness map store", sum.clone()));
    total.merge(st);
    let (st, sum) = explore("MemStore", || Arc::new(MemStore::default()), &pool, &al, depth_mem, cap);
    parts.push(("MemStore", sum.clone()));
    total.merge(st);

    // purges of many tombstones with partial storage failures (added after the seeded change C02-h)
    {
        let sizes: Vec<usize> = if tier.is_thorough() { vec![1, 3, 63, 64, 65, 127, 128, 129, 300] } else { vec![3, 64, 65, 130] };
        for n in sizes {
            let mut faults = vec![Fault::None, Fault::FailBefore, Fault::FailAfter(1), Fault::FailAfter(3), Fault::FailOnly(0)];
            if n > 1 {
                faults.push(Fault::FailAfter(n - 1));
                faults.push(Fault::FailOnly(n - 1));
                faults.push(Fault::FailAfter(n / 2));
            }
            for f in faults {
                vkit::e2::block_on_fresh(large_purge(n, f, &mut total));
            }
        }
    }
    total.sample(|| {
        history_json(
            &pool,
            &[al[0].clone(), al[al.len() / 2].clone(), al[al.len() - 1].clone()],
            "harness map store",
        )
    });
    let states: u64 = parts.iter().map(|(_, s)| s.states).sum();
    let transitions: u64 = parts.iter().map(|(_, s)| s.transitions).sum();
    let failed = total.get("requests_with_storage_failure");
    let errors = total.get("requests_answered_with_error");
    total.flush_into(&mut report);
    report.cover("states", states);
    report.cover("transitions", transitions);
    report.cover("traces_validated_against_impl", transitions);
    report.cover("evaluations", transitions);
    report.cover("distinct_nontrivial", states);
    report.cover(
        "rule",
        "BFS by replay over request histories; a state is (decoded Serialize reply of the real actor incl. version \
         stamps, store rows); every transition = replay of the whole history on a fresh actor, judged after its last request",
    );
    report.cover("alphabet_size", al.len());
    report.cover(
        "runs",
        J::Arr(
            parts
                .iter()
                .map(|(n, s)| {
                    J::obj()
                        .set("inner_store", *n)
                        .set("states", s.states)
                        .set("transitions", s.transitions)
                        .set("depth_reached", s.depth_reached)
                        .set("frontier_left_unexplored", s.frontier_left)
                        .set("state_cap_hit", s.state_cap_hit)
                })
                .collect(),
        ),
    );
    report.cover("exhaustive", true);
    report.guard_nonzero("guard_requests_with_storage_failure", failed);
    report.guard_nonzero("guard_requests_answered_with_error", errors);
    report.guard(states > 100, "fewer than 100 states");
    report.assume("state merging by (set snapshot, store rows): that pair is the whole state of the actor (name, clock and change stamp do not influence request handling)");
    report.assume("a bulk call that carries the same id twice is not combined with a partial storage failure: the contract reports successes by id, which is ambiguous there");
    report.assume("single-document storage calls fail atomically (before writing), as the Storage contract demands");
    report.finish()
}

pub fn replay(case: &J) -> i32 {
    if case.get("scenario").and_then(|v| v.as_str()) == Some("large purge") {
        let n = case.get("tombstones").and_then(|v| v.as_u64()).unwrap_or(65) as usize;
        let f = case.get("storage_answer_to_the_purge").and_then(|v| v.as_str()).unwrap_or("None");
        let num = |t: &str| t.trim_matches(|c: char| !c.is_ascii_digit()).parse::<usize>().unwrap_or(0);
        let fault = if f.starts_with("FailBefore") {
            Fault::FailBefore
        } else if f.starts_with("FailAfter") {
            Fault::FailAfter(num(f))
        } else if f.starts_with("FailOnly") {
            Fault::FailOnly(num(f))
        } else {
            Fault::None
        };
        let mut st = Stats::default();
        vkit::e2::block_on_fresh(large_purge(n, fault, &mut st));
        for v in &st.found {
            println!("{}: {}", v.key, v.what);
        }
        return (!st.found.is_empty()) as i32;
    }
    let pool = pool();
    let history: Vec<Step> = case
        .get("requests")
        .and_then(|v| v.as_arr())
        .unwrap_or(&[])
        .iter()
        .filter_map(step_from_json)
        .collect();
    let inner = case.get("inner_store").and_then(|v| v.as_str()).unwrap_or("");
    let mut bad = false;
    for n in 1..=history.len() {
        let mut st = Stats::default();
        if inner == "MemStore" {
            vkit::e2::block_on_fresh(execute(&pool, &history[..n], Arc::new(MemStore::default()), "MemStore", &mut st));
        } else {
            vkit::e2::block_on_fresh(execute(&pool, &history[..n], Arc::new(MapStore::default()), "harness map store", &mut st));
        }
        println!("after request {n}: {}", step_json(&pool, &history[n - 1]).to_string_compact());
        for f in &st.found {
            println!("  {}: {}", f.key, f.what);
            bad = true;
        }
    }
    bad as i32
}
