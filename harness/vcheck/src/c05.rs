//! C05 — the computed difference is exactly what a replica lacks; one exchange repairs.
//!
//! Engine E1 (Layer A): over ALL ordered pairs of the `gen.rs` state families the real
//! `OrSWotSet::diff` is compared with an independent reference computed from the two
//! snapshots; the difference is then applied the way the keyspace actor applies a repair
//! (each list filtered by `will_apply` against the state at batch start, ordered by
//! stamp, on the read-repair source) in both batch orders, and the re-computed difference
//! must be empty; finally both replicas repair from each other and must agree.

use datacake_crdt::verif::VerifSnapshot;
use datacake_crdt::HLCTimestamp;
use vkit::{fp128, par, Report, Stats, Tier, J};

use crate::crdt::*;
use crate::gen::*;

pub const READ_REPAIR_SOURCE: usize = 1;

type Changes = Vec<(u64, HLCTimestamp)>;

/// Independent statement of what `a.diff(b)` must contain.
pub fn reference_diff(a: &VerifSnapshot, b: &VerifSnapshot) -> (Changes, Changes) {
    let wanted = |k: u64, t: HLCTimestamp| -> bool {
        match key_view(a, k) {
            KeyView::Live(x) | KeyView::Dead(x) => x < t,
            KeyView::Absent => {
                let cutoff = a.safe_stamps.iter().find(|(n, _)| *n == t.node()).map(|(_, s)| *s);
                match cutoff {
                    Some(s) => !(t < s),
                    None => true,
                }
            },
        }
    };
    let mut changes: Changes = b.entries.iter().copied().filter(|(k, t)| wanted(*k, *t)).collect();
    let mut removals: Changes = b.dead.iter().copied().filter(|(k, t)| wanted(*k, *t)).collect();
    changes.sort();
    removals.sort();
    (changes, removals)
}

/// The keyspace actor's handling of one repair batch, restated (see actor.rs
/// on_multi_set / on_multi_del): candidates are filtered with will_apply against the state
/// *before* the batch, ordered by stamp, then applied on the read-repair source.
pub fn apply_batch_like_actor(set: &mut Set2, items: &Changes, delete: bool) {
    let mut valid: Changes = items
        .iter()
        .copied()
        .filter(|(k, t)| set.will_apply(*k, *t))
        .collect();
    valid.sort_by_key(|e| e.1);
    for (k, t) in valid {
        if delete {
            set.delete_with_source(READ_REPAIR_SOURCE, k, t);
        } else {
            set.insert_with_source(READ_REPAIR_SOURCE, k, t);
        }
    }
}

pub fn repair_from(a: &Set2, b: &Set2, removals_first: bool) -> Set2 {
    let (changes, removals) = a.diff(b);
    let mut out = a.clone();
    if removals_first {
        apply_batch_like_actor(&mut out, &removals, true);
        apply_batch_like_actor(&mut out, &changes, false);
    } else {
        apply_batch_like_actor(&mut out, &changes, false);
        apply_batch_like_actor(&mut out, &removals, true);
    }
    out
}

fn changes_json(c: &Changes) -> J {
    J::Arr(c.iter().map(|(k, t)| J::from(format!("{k}@{t}"))).collect())
}

fn case2(family: &str, a: &Labeled, b: &Labeled) -> J {
    J::obj()
        .set("family", family)
        .set("a", a.built_by.to_json())
        .set("b", b.built_by.to_json())
}

fn sorted(mut c: Changes) -> Changes {
    c.sort();
    c
}

fn check_family(family: &str, states: &[Labeled], repair_claims: bool) -> Stats {
    let idx: Vec<usize> = (0..states.len()).collect();
    let parts = par::par_map(&idx, |_, &i| {
        let mut st = Stats::default();
        let a = &states[i];
        for b in states {
            st.inc("pairs");
            // (i) the difference itself
            let (changes, removals) = a.set.diff(&b.set);
            let got = (sorted(changes.clone()), sorted(removals.clone()));
            let want = reference_diff(&a.snap, &b.snap);
            st.inc("transitions");
            if got != want {
                let clause = if got.0 != want.0 { "modified" } else { "removed" };
                st.violation(
                    &format!("diff-differs-from-reference/{clause}"),
                    || {
                        format!(
                            "diff lists modified={} removed={} but exactly modified={} removed={} are missing",
                            changes_json(&got.0).to_string_compact(),
                            changes_json(&got.1).to_string_compact(),
                            changes_json(&want.0).to_string_compact(),
                            changes_json(&want.1).to_string_compact()
                        )
                    },
                    || case2(family, a, b),
                );
            }
            if !got.0.is_empty() || !got.1.is_empty() {
                st.inc("pairs_with_nonempty_diff");
                st.seen("diffs", fp128(&got));
            }
            if !got.0.is_empty() && !got.1.is_empty() {
                st.inc("pairs_with_both_lists");
            }
            if !repair_claims {
                continue;
            }
            // (ii) one exchange leaves nothing further to fetch, in either batch order
            let mut repaired = Vec::new();
            for removals_first in [true, false] {
                let a2 = repair_from(&a.set, &b.set, removals_first);
                st.add("transitions", 2);
                let (c2, r2) = a2.diff(&b.set);
                if !c2.is_empty() || !r2.is_empty() {
                    let order = if removals_first { "removals-first" } else { "modifications-first" };
                    st.violation(
                        &format!("rediff-not-empty/{order}"),
                        || {
                            format!(
                                "after applying the difference ({order}) the replica still lacks modified={} removed={}",
                                changes_json(&c2).to_string_compact(),
                                changes_json(&r2).to_string_compact()
                            )
                        },
                        || case2(family, a, b).set("removals_first", removals_first),
                    );
                }
                repaired.push(a2);
            }
            if live_view(&repaired[0], &KEYS) != live_view(&repaired[1], &KEYS) {
                st.violation(
                    "batch-order-changes-result",
                    || "the two batch orders leave different live entries".to_string(),
                    || case2(family, a, b),
                );
            }
            // (iii) mutual repair converges, to the newest per key of both sides
            let want_live = views_live(&reference_join(&a.snap, &b.snap, &KEYS));
            for (ai, a2) in repaired.iter().enumerate() {
                for removals_first in [true, false] {
                    let b2 = repair_from(&b.set, &a.set, removals_first);
                    st.inc("mutual_repairs");
                    let la = live_view(a2, &KEYS);
                    let lb = live_view(&b2, &KEYS);
                    if la != lb || la != want_live {
                        st.violation(
                            "mutual-repair-does-not-converge",
                            || {
                                format!(
                                    "after both sides applied their difference: a={} b={} expected={}",
                                    live_json(&la).to_string_compact(),
                                    live_json(&lb).to_string_compact(),
                                    live_json(&want_live).to_string_compact()
                                )
                            },
                            || {
                                case2(family, a, b)
                                    .set("removals_first", ai == 0)
                                    .set("b_removals_first", removals_first)
                            },
                        );
                    } else {
                        st.seen("outcomes", fp128(&la));
                    }
                }
            }
        }
        st
    });
    let mut all = Stats::default();
    for p in parts {
        all.merge(p);
    }
    all.add("states", states.len() as u64);
    if let (Some(a), Some(b)) = (states.get(states.len() / 3), states.last()) {
        all.sample(|| {
            let (c, r) = a.set.diff(&b.set);
            case2(family, a, b)
                .set("diff_modified", changes_json(&sorted(c)))
                .set("diff_removed", changes_json(&sorted(r)))
        });
    }
    all
}

pub fn run(tier: Tier) -> i32 {
    let mut report = Report::new("C05", tier, "model_checking");
    let mut total = Stats::default();
    let mut families = Vec::new();

    for (name, history) in p1_histories(tier.is_thorough()) {
        let states = p1_states(&history);
        families.push(J::obj().set("family", format!("P1: {name}")).set("states", states.len()));
        total.merge(check_family(&format!("P1: {name}"), &states, true));

        // The difference rule alone (clause i) also for replicas that have purged: this is
        // what reaches the "holds nothing / purge cut-off" branch of the rule.
        let mut purged = Vec::new();
        let mut seen = std::collections::HashSet::new();
        for s in &states {
            let mut set = s.set.clone();
            let removed = set.purge_old_deletes();
            if removed.is_empty() {
                continue;
            }
            let snap = set.verif_snapshot();
            if seen.insert(snap.clone()) {
                purged.push(Labeled {
                    built_by: Prov::Purged(Box::new(s.built_by.clone())),
                    prefix: s.prefix.clone(),
                    set,
                    snap,
                });
            }
        }
        total.add("purged_states", purged.len() as u64);
        let mut mixed: Vec<Labeled> = purged;
        mixed.extend(states.iter().cloned());
        families.push(
            J::obj()
                .set("family", format!("P1+purge (difference rule only): {name}"))
                .set("states", mixed.len()),
        );
        let mut st = check_family(&format!("P1+purge: {name}"), &mixed, false);
        st.counters.remove("states");
        total.merge(st);
    }
    {
        let depth = tier.pick(3, 4);
        let states = p2_states(&p2_pool(), depth);
        families.push(
            J::obj()
                .set("family", format!("P2: pool of 8 within 50 min, depth {depth}"))
                .set("states", states.len()),
        );
        total.merge(check_family("P2", &states, true));
    }

    {
        // The difference rule (first sentence of the property) is stated for ALL reachable
        // sets, not only under C03's condition: every set reachable over a pool whose origins
        // have gaps of more than one hour, in any selection and order, on both sources, plus
        // what a purge makes of it. This is where a replica holds an old entry for a key while
        // its cut-off for that origin has moved past the peer's newer one.
        let depth = tier.pick(5, 6);
        // + one operation of origin 2 exactly one hour after its delete of key 1 at minute 10:
        // a replica that saw it through both sources has its cut-off for origin 2 exactly ON
        // that delete's stamp ("not older than the cut-off" includes equality; added after the
        // seeded change C05-f)
        let mut pool = crate::c04::pool();
        pool.push(Op::ins(3, ts_min(70, 0, 2)));
        // ... and one exactly one hour after its insert of key 2 at minute 20 (the same boundary
        // for the list of modifications)
        pool.push(Op::del(3, ts_min(80, 0, 2)));
        let plain = p2_states(&pool, depth);
        let mut mixed: Vec<Labeled> = Vec::new();
        let mut seen = std::collections::HashSet::new();
        for s in &plain {
            let mut set = s.set.clone();
            if set.purge_old_deletes().is_empty() {
                continue;
            }
            let snap = set.verif_snapshot();
            if seen.insert(snap.clone()) {
                mixed.push(Labeled { built_by: Prov::Purged(Box::new(s.built_by.clone())), prefix: s.prefix.clone(), set, snap });
            }
        }
        total.add("purged_states", mixed.len() as u64);
        mixed.extend(plain);
        families.push(
            J::obj()
                .set("family", format!("P3 (difference rule only): every set reachable in <= {depth} steps over the 12-operation pool with >1h gaps (two pairs exactly 1h apart), any order, both sources, + purged"))
                .set("states", mixed.len()),
        );
        let behind = mixed
            .iter()
            .filter(|s| {
                s.snap.entries.iter().chain(s.snap.dead.iter()).any(|(_, t)| s.snap.safe_stamps.iter().any(|(n, c)| *n == t.node() && t < c))
            })
            .count();
        total.add("p3_states_holding_an_entry_behind_their_own_cut_off", behind as u64);
        total.merge(check_family("P3", &mixed, false));
    }

    let states = total.get("states");
    let pairs = total.get("pairs");
    let transitions = total.get("transitions");
    let nonempty = total.get("pairs_with_nonempty_diff");
    let both = total.get("pairs_with_both_lists");
    let purged = total.get("purged_states");
    let diffs = total.distinct_count("diffs");
    total.flush_into(&mut report);
    report.cover("states", states);
    report.cover("transitions", transitions);
    report.cover("traces_validated_against_impl", pairs);
    report.cover("evaluations", pairs);
    report.cover("distinct_nontrivial", diffs);
    report.cover(
        "rule",
        "all ordered pairs (a, b) of every state family; per pair: real diff vs reference, repair in both batch \
         orders + re-diff, mutual repair in all four order combinations; distinct_nontrivial = distinct non-empty \
         differences observed",
    );
    report.cover("families", J::Arr(families));
    report.cover("exhaustive", true);
    report.guard_nonzero("guard_pairs_with_nonempty_diff", nonempty);
    report.guard_nonzero("guard_pairs_with_both_lists", both);
    report.guard_nonzero("guard_purged_states", purged);
    let behind = report.cover_get("p3_states_holding_an_entry_behind_their_own_cut_off");
    report.guard_nonzero("guard_p3_states_holding_an_entry_behind_their_own_cut_off", behind);
    report.assume(
        "the actor's batch handling (filter by will_apply at batch start, sort by stamp, apply on source 1) is \
         restated in 12 lines of harness code here; its agreement with the real actor is what C02/C01 check",
    );
    report.assume("repair claims (re-diff empty, convergence) only for the P1 and P2 families, as the property states");
    report.finish()
}

pub fn replay(case: &J) -> i32 {
    let get = |k: &str| case.get(k).and_then(Prov::rebuild);
    let (Some(a), Some(b)) = (get("a"), get("b")) else {
        eprintln!("bad case");
        return 2;
    };
    let (sa, sb) = (a.verif_snapshot(), b.verif_snapshot());
    println!("a = {}", snap_json(&sa).to_string_compact());
    println!("b = {}", snap_json(&sb).to_string_compact());
    let (c, r) = a.diff(&b);
    let got = (sorted(c), sorted(r));
    let want = reference_diff(&sa, &sb);
    println!("diff      modified={} removed={}", changes_json(&got.0).to_string_compact(), changes_json(&got.1).to_string_compact());
    println!("reference modified={} removed={}", changes_json(&want.0).to_string_compact(), changes_json(&want.1).to_string_compact());
    let mut bad = got != want;
    for removals_first in [true, false] {
        let a2 = repair_from(&a, &b, removals_first);
        let (c2, r2) = a2.diff(&b);
        println!(
            "repair removals_first={removals_first}: lookups={} re-diff modified={} removed={}",
            live_json(&live_view(&a2, &KEYS)).to_string_compact(),
            changes_json(&c2).to_string_compact(),
            changes_json(&r2).to_string_compact()
        );
        bad |= !c2.is_empty() || !r2.is_empty();
        let b2 = repair_from(&b, &a, removals_first);
        bad |= live_view(&a2, &KEYS) != live_view(&b2, &KEYS);
    }
    bad as i32
}
