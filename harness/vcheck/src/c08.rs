//! C08 — purging tombstones is invisible and deletes stay deleted.
//!
//! Part 1 (local facts, Layer A, E1): depth-first enumeration of every timely delivery
//! sequence over the C04 pool (which has gaps beyond one hour, so purging really happens)
//! through both sources with `purge_old_deletes` as an extra event at any point. In every
//! reached state a purge is tried on a copy and the local clauses are evaluated, followed
//! by probe operations from the deleting node.
//!
//! Part 2 (cluster claim) lives in `c08_cluster.rs`.

use datacake_crdt::{HLCTimestamp, OrSWotSet};
use vkit::{fp128, par, Report, Stats, Tier, J};

use crate::c04::KEYS;
use crate::crdt::*;

type Set2 = OrSWotSet<2>;

/// Pool for the purge checks: per origin a delete followed by two operations more than an
/// hour later (a tombstone is only purged once *both* sources have seen its origin move
/// on by more than the forgiveness period), plus re-inserts of deleted keys by the other
/// origin and stamps that tie on time.
pub fn pool() -> Vec<Op> {
    const A: u8 = 1;
    const B: u8 = 2;
    vec![
        Op::ins(1, ts_min(0, 0, A)),
        Op::del(1, ts_min(5, 0, A)),
        Op::del(2, ts_min(10, 0, B)),
        Op::ins(1, ts_min(20, 0, B)),
        // a slow but timely operation of A: older than what both sources will have seen of A
        // when it arrives, still inside the forgiveness window (added after C08-d)
        Op::ins(2, ts_min(60, 0, A)),
        Op::ins(2, ts_min(70, 0, A)),
        Op::ins(2, ts_min(75, 0, A)),
        // "movers": operations on a third key let B move on (so that its delete of key 2
        // becomes purgeable) without touching the tombstones of keys 1 and 2 - this is how a
        // replica comes to hold a purgeable tombstone of one origin next to an older,
        // not yet purgeable one of another origin (added after C08-e)
        Op::ins(3, ts_min(82, 0, B)),
        Op::ins(3, ts_min(88, 0, B)),
        Op::ins(1, ts_min(80, 0, B)),
        Op::del(1, ts_min(85, 0, B)),
        Op::del(2, ts_min(140, 0, A)),
        Op::ins(2, ts_min(150, 0, B)),
    ]
}

#[derive(Clone, Copy)]
enum Ev {
    Op(Op, usize),
    Purge,
}

fn trail_json(trail: &[Ev]) -> J {
    J::Arr(
        trail
            .iter()
            .map(|e| match e {
                Ev::Op(op, src) => op.to_json().set("src", *src),
                Ev::Purge => J::obj().set("kind", "purge"),
            })
            .collect(),
    )
}

/// Evaluates the local purge clauses on a copy of `set`.
fn check_purge(set: &Set2, pool: &[Op], trail: &[Ev], st: &mut Stats) -> Set2 {
    let before = set.verif_snapshot();
    let mut purged_set = set.clone();
    let removed = purged_set.purge_old_deletes();
    let after = purged_set.verif_snapshot();
    st.inc("purges_evaluated");
    st.inc("transitions");
    if !removed.is_empty() {
        st.inc("purges_that_removed_something");
    }
    let case = || trail_json(trail).clone();

    // lookups unchanged, live entries untouched
    if live_view(set, &KEYS) != live_view(&purged_set, &KEYS) || before.entries != after.entries {
        st.violation(
            "purge-changed-live-entries",
            || format!("live entries before {:?} after {:?}", before.entries, after.entries),
            || J::obj().set("events", case()).set("then", "purge"),
        );
    }
    // removes only tombstones, and reports exactly what it removed
    for (k, t) in &removed {
        if key_view(&before, *k) != KeyView::Dead(*t) {
            st.violation(
                "purge-returned-a-non-tombstone",
                || {
                    format!(
                        "purge returned ({k}, {t}) but before the purge key {k} was {:?}",
                        key_view(&before, *k)
                    )
                },
                || J::obj().set("events", case()).set("then", "purge"),
            );
        }
    }
    let mut expect_dead: Vec<_> = before
        .dead
        .iter()
        .copied()
        .filter(|e| !removed.contains(e))
        .collect();
    expect_dead.sort();
    if after.dead != expect_dead {
        st.violation(
            "purge-result-inconsistent-with-tombstones",
            || format!("tombstones before {:?}, returned {:?}, after {:?}", before.dead, removed, after.dead),
            || J::obj().set("events", case()).set("then", "purge"),
        );
    }
    // (whether a purge touches the internal version bookkeeping is not observable by itself;
    // what must hold afterwards is probed below - an earlier version flagged any change of the
    // per-source stamps here, which is more than the property states)
    if before.max_stamps != after.max_stamps || before.safe_stamps != after.safe_stamps {
        st.inc("purges_that_changed_version_bookkeeping");
    }
    // only tombstones strictly older than the cut-off of their origin go
    for (k, t) in &removed {
        let cutoff = before.safe_stamps.iter().find(|(n, _)| *n == t.node()).map(|(_, s)| *s);
        let newest: Option<HLCTimestamp> = before
            .max_stamps
            .iter()
            .map(|m| m.iter().find(|(n, _)| *n == t.node()).map(|(_, s)| *s))
            .min()
            .flatten();
        let window_ok = newest.map_or(false, |m| t.datacake_timestamp() + HOUR <= m.datacake_timestamp());
        if cutoff.map_or(true, |c| !(*t < c)) || !window_ok {
            st.violation(
                "purged-a-tombstone-inside-the-forgiveness-window",
                || format!("purged ({k}, {t}) with cut-off {cutoff:?}, least-advanced source at {newest:?}"),
                || J::obj().set("events", case()).set("then", "purge"),
            );
        }
    }

    // afterwards: nothing from the deleting node that is not newer than the purged delete
    for (_, td) in &removed {
        let mut probes: Vec<HLCTimestamp> = pool
            .iter()
            .map(|o| o.ts)
            .filter(|t| t.node() == td.node() && t <= td)
            .collect();
        probes.push(*td);
        if td.counter() > 0 {
            probes.push(HLCTimestamp::new(td.datacake_timestamp(), td.counter() - 1, td.node()));
        }
        probes.push(HLCTimestamp::new(
            td.datacake_timestamp().saturating_sub(std::time::Duration::from_millis(4)),
            u16::MAX,
            td.node(),
        ));
        probes.sort();
        probes.dedup();
        for pt in probes {
            for key in KEYS {
                for del in [false, true] {
                    for src in 0..2 {
                        st.inc("probes");
                        let mut s2 = purged_set.clone();
                        let predicted = s2.will_apply(key, pt);
                        let returned = apply(&mut s2, src, Op { key, del, ts: pt });
                        let unchanged = s2.verif_snapshot() == after;
                        if predicted || returned || !unchanged {
                            st.violation(
                                "stale-operation-accepted-after-purge",
                                || {
                                    format!(
                                        "after purging a delete at {td}, {} key {key} at {pt} via source {src}: will_apply={predicted} returned={returned} state unchanged={unchanged}",
                                        if del { "delete" } else { "insert" }
                                    )
                                },
                                || {
                                    J::obj().set("events", case()).set("then", "purge").set(
                                        "probe",
                                        Op { key, del, ts: pt }.to_json().set("src", src),
                                    )
                                },
                            );
                        }
                    }
                }
            }
        }
    }
    purged_set
}

struct Ctx<'a> {
    pool: &'a [Op],
    depth: usize,
    max_purges: usize,
    only_first: Option<usize>,
}

fn dfs(
    cx: &Ctx,
    set: &Set2,
    seen: &SeenTracker,
    used: &mut Vec<bool>,
    trail: &mut Vec<Ev>,
    purges: usize,
    st: &mut Stats,
) {
    // "afterwards still rejects any operation from the deleting node that is not newer than
    // the purged delete": not only right after the purge (check_purge) but in every later
    // state of the history
    let mut purged_deletes: Vec<HLCTimestamp> = Vec::new();
    {
        let mut replay = Set2::default();
        for e in trail.iter() {
            match e {
                Ev::Op(o, s) => {
                    apply(&mut replay, *s, *o);
                },
                Ev::Purge => purged_deletes.extend(replay.purge_old_deletes().into_iter().map(|(_, t)| t)),
            }
        }
    }
    for td in &purged_deletes {
        for pt in cx.pool.iter().map(|o| o.ts).filter(|t| t.node() == td.node() && t <= td) {
            for key in KEYS {
                st.inc("later_probes");
                if set.will_apply(key, pt) {
                    st.violation(
                        "stale-operation-accepted-later-after-purge",
                        || format!("a delete at {td} was purged earlier in this history; now an operation on key {key} at {pt} from the same node would be applied"),
                        || J::obj().set("events", trail_json(trail)).set("probe_key", key).set("probe_stamp", pt.to_string()),
                    );
                }
            }
        }
    }
    // Every reached state: evaluate a purge on a copy.
    let purged = check_purge(set, cx.pool, trail, st);
    st.seen("states", fp128(&set.verif_snapshot()));
    let n_ops = trail.iter().filter(|e| matches!(e, Ev::Op(..))).count();
    if n_ops == cx.depth {
        st.inc("sequences");
        st.sample(|| trail_json(trail));
        return;
    }
    // purge as an event of the history (only when it changes something: otherwise it is
    // the identity and the branch would duplicate the current one)
    if purges < cx.max_purges
        && !matches!(trail.last(), Some(Ev::Purge))
        && purged.verif_snapshot() != set.verif_snapshot()
    {
        trail.push(Ev::Purge);
        dfs(cx, &purged, seen, used, trail, purges + 1, st);
        trail.pop();
    }
    for (i, op) in cx.pool.iter().enumerate() {
        if trail.is_empty() && cx.only_first.map_or(false, |f| f != i) {
            continue;
        }
        if used[i] {
            continue;
        }
        if !seen.is_timely(op.ts) || (purges > 0 && !seen.is_globally_timely(op.ts)) {
            // After a purge the differential clause below needs the cluster-level
            // timeliness (no operation more than an hour behind anything already seen).
            st.inc("filtered_untimely");
            continue;
        }
        for src in 0..2 {
            let mut next = set.clone();
            let safe_before = next.verif_snapshot().safe_stamps;
            apply(&mut next, src, *op);
            st.inc("transitions");
            let safe_after = next.verif_snapshot().safe_stamps;
            // cut-offs never move backwards
            for (n, s) in &safe_before {
                let now = safe_after.iter().find(|(m, _)| m == n).map(|(_, s)| *s);
                if now.map_or(true, |x| x < *s) {
                    trail.push(Ev::Op(*op, src));
                    st.violation(
                        "purge-cut-off-decreased",
                        || format!("cut-off of node {n} went {s} -> {now:?}"),
                        || J::obj().set("events", trail_json(trail)),
                    );
                    trail.pop();
                }
            }
            // lookups of a history with purges equal those of the same history without
            trail.push(Ev::Op(*op, src));
            used[i] = true;
            if purges > 0 {
                let mut plain = Set2::default();
                for e in trail.iter() {
                    if let Ev::Op(o, s) = e {
                        apply(&mut plain, *s, *o);
                    }
                }
                st.inc("purge_vs_no_purge_comparisons");
                if live_view(&plain, &KEYS) != live_view(&next, &KEYS) {
                    st.violation(
                        "history-with-purge-differs-from-history-without",
                        || {
                            format!(
                                "with purges lookups are {}, without {}",
                                live_json(&live_view(&next, &KEYS)).to_string_compact(),
                                live_json(&live_view(&plain, &KEYS)).to_string_compact()
                            )
                        },
                        || J::obj().set("events", trail_json(trail)),
                    );
                }
            }
            let mut seen2 = seen.clone();
            seen2.observe(op.ts);
            dfs(cx, &next, &seen2, used, trail, purges, st);
            used[i] = false;
            trail.pop();
        }
    }
}

pub fn run_local(tier: Tier) -> Stats {
    let pool = pool();
    let depth = tier.pick(6, 8);
    let firsts: Vec<usize> = (0..pool.len()).collect();
    let parts = par::par_map(&firsts, |_, &first| {
        let mut st = Stats::default();
        let cx = Ctx {
            pool: &pool,
            depth,
            max_purges: 2,
            only_first: Some(first),
        };
        let mut used = vec![false; pool.len()];
        let mut trail = Vec::new();
        dfs(
            &cx,
            &Set2::default(),
            &SeenTracker::default(),
            &mut used,
            &mut trail,
            0,
            &mut st,
        );
        st
    });
    let mut all = Stats::default();
    for p in parts {
        all.merge(p);
    }
    all.add("local_depth", depth as u64);
    all
}

pub fn run(tier: Tier) -> i32 {
    let mut report = Report::new("C08", tier, "model_checking");
    // debugging aid: VERIF_C08_LOCAL_ONLY skips the cluster model (such a run decides nothing)
    let local_only = std::env::var("VERIF_C08_LOCAL_ONLY").is_ok();
    if local_only {
        report.machinery_error("filtered run (VERIF_C08_LOCAL_ONLY)".to_string());
    }
    let cluster = if local_only { Stats::default() } else { crate::c08_cluster::run(tier) };
    let cluster_states = cluster.get("states");
    let cluster_transitions = cluster.get("transitions");
    let cluster_closings = cluster.get("closings");
    let cluster_purging = cluster.get("closings_where_a_purge_removed_something");
    let cluster_cut = cluster.get("paths_cut_at_event_bound");
    cluster.flush_into(&mut report);
    let t0 = std::time::Instant::now();
    let local = run_local(tier);
    if std::env::var("VERIF_PROGRESS").is_ok() {
        eprintln!("[C08 local] done in {:.1}s", t0.elapsed().as_secs_f64());
    }
    let removed = local.get("purges_that_removed_something");
    let probes = local.get("probes");
    let cmp = local.get("purge_vs_no_purge_comparisons");
    let states = local.distinct_count("states");
    let transitions = local.get("transitions");
    let sequences = local.get("sequences");
    local.flush_into(&mut report);

    report.cover("states", states + cluster_states);
    report.cover("transitions", transitions + cluster_transitions);
    report.cover("traces_validated_against_impl", sequences);
    report.cover("evaluations", sequences + cluster_closings);
    report.cover("distinct_nontrivial", states + cluster_states);
    report.cover("cluster_model_states", cluster_states);
    report.cover("cluster_model_closings_compared_with_twin", cluster_closings);
    report.cover("cluster_model_paths_cut_at_event_bound", cluster_cut);
    report.guard_nonzero("guard_cluster_closings_where_a_purge_removed_something", cluster_purging);
    report.cover(
        "rule",
        "local part: every timely delivery sequence over the 10-operation pool, both sources, up to 2 purge events \
         anywhere; in every reached state a purge is evaluated on a copy and stale probe operations are replayed. \
         cluster part: depth-first search (deduplicated per shard by the full model state) over issue / direct delivery \
         (with a duplicate) / repair (both batch orders) / purge / 20-minute time advance on 2-3 real OrSWotSet replicas \
         with clock skew, timeliness enforced by the explorer; every state is compared with its never-purging twin and \
         also closed (pending deliveries + two full repair rounds) and compared with twin and LWW reference",
    );
    report.cover("exhaustive", true);
    report.guard_nonzero("guard_purges_that_removed_something", removed);
    report.guard_nonzero("guard_probes", probes);
    report.guard_nonzero("guard_purge_vs_no_purge_comparisons", cmp);
    report.assume("delivery is timely in the sense of the property: strictly less than one hour behind the newest stamp already handed to the replica from the same origin");
    crate::c08_actor::run(tier, &mut report);
    report.finish()
}

pub fn replay(case: &J) -> i32 {
    if case.get("block").and_then(|v| v.as_str()) == Some("actor") {
        return crate::c08_actor::replay(case);
    }
    if case.get("skew_minutes").is_some() {
        return crate::c08_cluster::replay(case);
    }
    let pool = pool();
    let mut set = Set2::default();
    let mut trail = Vec::new();
    let mut st = Stats::default();
    for e in case.get("events").and_then(|v| v.as_arr()).unwrap_or(&[]) {
        if e.get("kind").and_then(|v| v.as_str()) == Some("purge") {
            let removed = set.purge_old_deletes();
            println!("purge -> removed {removed:?}");
            trail.push(Ev::Purge);
        } else if let (Some(op), Some(src)) = (Op::from_json(e), e.get("src").and_then(|v| v.as_u64())) {
            let r = apply(&mut set, src as usize, op);
            println!("{op:?} via source {src} -> {r}");
            trail.push(Ev::Op(op, src as usize));
        }
    }
    println!("state: {}", snap_json(&set.verif_snapshot()).to_string_compact());
    check_purge(&set, &pool, &trail, &mut st);
    for f in &st.found {
        println!("{}: {}", f.key, f.what);
    }
    (!st.found.is_empty()) as i32
}
