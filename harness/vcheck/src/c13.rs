//! C13 — a message is served exactly when its service is currently registered.
//!
//! Engine E1: every add/remove sequence (no state merging, so hidden registry state
//! cannot hide) over five services — S1 and S2 handle the same message type, S3 handles
//! two message types, G1 and G2 are registered under one shared service name — is executed on a real `Server` through the in-process transport
//! (H3), and after *every* event every (service, message) pair is probed with a real
//! `RpcClient`. Reference model: a set of registered service names.

use std::collections::BTreeSet;
use std::net::SocketAddr;

use datacake_rpc::{
    Channel,
    ErrorCode,
    Handler,
    Request,
    RpcClient,
    RpcService,
    Server,
    ServiceRegistry,
    Status,
};
use rkyv::{Archive, Deserialize, Serialize};
use vkit::{par, Report, Stats, Tier, J};

#[repr(C)]
#[derive(Serialize, Deserialize, Archive, PartialEq, Debug)]
#[archive(check_bytes)]
pub struct Ping {
    pub n: u32,
}

#[repr(C)]
#[derive(Serialize, Deserialize, Archive, PartialEq, Debug)]
#[archive(check_bytes)]
pub struct Other {
    pub text: String,
}

#[repr(C)]
#[derive(Serialize, Deserialize, Archive, PartialEq, Debug)]
#[archive(check_bytes)]
pub struct Tagged {
    pub service: u32,
    pub message: u32,
    pub echo: u32,
}

macro_rules! service {
    ($name:ident, $tag:expr, [$($msg:ty => $mtag:expr, $echo:expr);*]) => {
        service!($name, std::any::type_name::<$name>(), $tag, [$($msg => $mtag, $echo);*]);
    };
    ($name:ident, $svc_name:expr, $tag:expr, [$($msg:ty => $mtag:expr, $echo:expr);*]) => {
        pub struct $name;
        impl RpcService for $name {
            fn service_name() -> &'static str {
                $svc_name
            }
            fn register_handlers(registry: &mut ServiceRegistry<Self>) {
                $(registry.add_handler::<$msg>();)*
            }
        }
        $(
        #[datacake_rpc::async_trait]
        impl Handler<$msg> for $name {
            type Reply = Tagged;
            async fn on_message(&self, msg: Request<$msg>) -> Result<Tagged, Status> {
                let m = msg.deserialize_view().map_err(Status::internal)?;
                #[allow(clippy::redundant_closure_call)]
                Ok(Tagged { service: $tag, message: $mtag, echo: ($echo)(&m) })
            }
        }
        )*
    };
}

service!(S1, 1, [Ping => 1, |m: &Ping| m.n]);
service!(S2, 2, [Ping => 1, |m: &Ping| m.n]);
service!(S3, 3, [Ping => 1, |m: &Ping| m.n; Other => 2, |m: &Other| m.text.len() as u32]);
// Two services registered under the SAME service name with different message types:
// removing the name must remove both.
service!(G1, "gamma", 4, [Ping => 1, |m: &Ping| m.n]);
service!(G2, "gamma", 5, [Other => 2, |m: &Other| m.text.len() as u32]);

/// A generic service that keeps the trait's default name — the type name, which contains
/// `<`, `>` and `::` (as datacake's own `ConsistencyService<S>` does); added after C13-g.
pub struct Gen<T>(pub std::marker::PhantomData<T>);
impl<T: Send + Sync + 'static> RpcService for Gen<T> {
    fn register_handlers(registry: &mut ServiceRegistry<Self>) {
        registry.add_handler::<Ping>();
    }
}
#[datacake_rpc::async_trait]
impl<T: Send + Sync + 'static> Handler<Ping> for Gen<T> {
    type Reply = Tagged;
    async fn on_message(&self, msg: Request<Ping>) -> Result<Tagged, Status> {
        let m = msg.deserialize_view().map_err(Status::internal)?;
        Ok(Tagged { service: 6, message: 1, echo: m.n })
    }
}
type Gen6 = Gen<Other>;

#[derive(Clone, Copy, Debug, PartialEq, Eq)]
enum Ev {
    Add(u8),
    Remove(u8),
}

/// Add(1..=3) = S1..S3, Add(4) = G1, Add(5) = G2; Remove(1..=3) by the service's own name,
/// Remove(4) = remove the shared name "gamma".
const EVENTS: [Ev; 11] = [
    Ev::Add(1),
    Ev::Add(2),
    Ev::Add(3),
    Ev::Add(4),
    Ev::Add(5),
    Ev::Add(6),
    Ev::Remove(1),
    Ev::Remove(2),
    Ev::Remove(3),
    Ev::Remove(4),
    Ev::Remove(6),
];

fn ev_json(e: &Ev) -> J {
    match e {
        Ev::Add(i) => J::from(format!("add {i}")),
        Ev::Remove(i) => J::from(format!("remove {i}")),
    }
}

fn addr() -> SocketAddr {
    SocketAddr::from(([10, 0, 0, 1], 7000))
}

/// Probes one (service, message) pair; returns Some(tag triple) if served, None if refused
/// as unknown service, Err(text) for anything else.
async fn probe(service: u8, message: u8) -> Result<Option<(u32, u32, u32)>, String> {
    let channel = Channel::connect(addr());
    let as_result = |r: Result<(u32, u32, u32), Status>| match r {
        Ok(t) => Ok(Some(t)),
        Err(s) if s.code == ErrorCode::ServiceUnavailable => Ok(None),
        Err(s) => Err(format!("unexpected status {s:?}")),
    };
    let tag = |v: &datacake_rpc::DataView<Tagged>| {
        let t: Tagged = v.deserialize_view().expect("deserialize reply");
        (t.service, t.message, t.echo)
    };
    match (service, message) {
        (1, 1) => as_result(RpcClient::<S1>::new(channel).send(&Ping { n: 41 }).await.map(|v| tag(&v))),
        (2, 1) => as_result(RpcClient::<S2>::new(channel).send(&Ping { n: 42 }).await.map(|v| tag(&v))),
        (3, 1) => as_result(RpcClient::<S3>::new(channel).send(&Ping { n: 43 }).await.map(|v| tag(&v))),
        (3, 2) => as_result(
            RpcClient::<S3>::new(channel)
                .send(&Other { text: "hello".into() })
                .await
                .map(|v| tag(&v)),
        ),
        (4, 1) => as_result(RpcClient::<G1>::new(channel).send(&Ping { n: 44 }).await.map(|v| tag(&v))),
        (6, 1) => as_result(RpcClient::<Gen6>::new(channel).send(&Ping { n: 46 }).await.map(|v| tag(&v))),
        (5, 2) => as_result(
            RpcClient::<G2>::new(channel)
                .send(&Other { text: "gamma!".into() })
                .await
                .map(|v| tag(&v)),
        ),
        _ => unreachable!(),
    }
}

const PROBES: [(u8, u8, u32); 7] = [(1, 1, 41), (2, 1, 42), (3, 1, 43), (3, 2, 5), (4, 1, 44), (5, 2, 6), (6, 1, 46)];

async fn run_sequence(seq: &[Ev], st: &mut Stats) {
    datacake_rpc::verif::set_in_process(true);
    datacake_rpc::verif::reset();
    let server = Server::listen(addr()).await.expect("listen");
    let mut registered: BTreeSet<u8> = BTreeSet::new();
    for (i, ev) in seq.iter().enumerate() {
        match ev {
            Ev::Add(1) => server.add_service(S1),
            Ev::Add(2) => server.add_service(S2),
            Ev::Add(3) => server.add_service(S3),
            Ev::Add(4) => server.add_service(G1),
            Ev::Add(5) => server.add_service(G2),
            Ev::Add(6) => server.add_service(Gen::<Other>(std::marker::PhantomData)),
            Ev::Remove(6) => server.remove_service(Gen6::service_name()),
            Ev::Remove(4) => server.remove_service("gamma"),
            Ev::Remove(1) => server.remove_service(S1::service_name()),
            Ev::Remove(2) => server.remove_service(S2::service_name()),
            Ev::Remove(3) => server.remove_service(S3::service_name()),
            _ => unreachable!(),
        }
        match ev {
            Ev::Add(s) => {
                registered.insert(*s);
            },
            Ev::Remove(4) => {
                // the shared name: both services registered under it go
                let a = registered.remove(&4);
                let b = registered.remove(&5);
                if !a && !b {
                    st.inc("removals_of_absent_service");
                }
            },
            Ev::Remove(s) => {
                if !registered.remove(s) {
                    st.inc("removals_of_absent_service");
                }
            },
        }
        st.inc("transitions");
        for (svc, msg, echo) in PROBES {
            st.inc("probes");
            let want = registered.contains(&svc);
            let got = probe(svc, msg).await;
            let case = || {
                J::obj()
                    .set("events", J::Arr(seq[..=i].iter().map(ev_json).collect()))
                    .set("probe", format!("S{svc} message {msg}"))
            };
            match got {
                Err(text) => st.violation("unexpected-status", || text.clone(), case),
                Ok(Some(tag)) => {
                    st.inc("probes_served");
                    if !want {
                        st.violation(
                            "served-although-not-registered",
                            || format!("S{svc}/message {msg} answered {tag:?} although S{svc} is not registered"),
                            case,
                        );
                    } else if tag != (svc as u32, msg as u32, echo) {
                        st.violation(
                            "answered-by-the-wrong-handler",
                            || format!("S{svc}/message {msg} answered {tag:?}"),
                            case,
                        );
                    }
                },
                Ok(None) => {
                    st.inc("probes_refused");
                    if want {
                        let removed_other = matches!(ev, Ev::Remove(s) if *s != svc);
                        let key = if removed_other {
                            "refused-although-registered/after-removing-another-service"
                        } else {
                            "refused-although-registered"
                        };
                        st.violation(
                            key,
                            || format!("S{svc}/message {msg} refused as unknown service although S{svc} is registered"),
                            case,
                        );
                    }
                },
            }
        }
    }
    server.shutdown();
    datacake_rpc::verif::reset();
}

pub fn block_on<T>(f: impl std::future::Future<Output = T>) -> T {
    let rt = tokio::runtime::Builder::new_current_thread()
        .enable_time()
        .start_paused(true)
        .build()
        .expect("runtime");
    rt.block_on(f)
}

fn sequences(len: usize) -> Vec<Vec<Ev>> {
    let mut out: Vec<Vec<Ev>> = vec![vec![]];
    for _ in 0..len {
        out = out
            .into_iter()
            .flat_map(|s| {
                EVENTS.iter().map(move |e| {
                    let mut t = s.clone();
                    t.push(*e);
                    t
                })
            })
            .collect();
    }
    out
}

pub fn run(tier: Tier) -> i32 {
    let mut report = Report::new("C13", tier, "model_checking");
    let len = tier.pick(5, 7);
    let seqs = sequences(len);
    let parts = par::par_map(&seqs, |_, seq| {
        let mut st = Stats::default();
        block_on(run_sequence(seq, &mut st));
        st.inc("sequences");
        st
    });
    let mut total = Stats::default();
    for p in parts {
        total.merge(p);
    }
    total.sample(|| J::Arr(seqs[seqs.len() / 2].iter().map(ev_json).collect()));
    total.sample(|| J::Arr(seqs[seqs.len() - 1].iter().map(ev_json).collect()));

    let sequences = total.get("sequences");
    let transitions = total.get("transitions");
    let served = total.get("probes_served");
    let refused = total.get("probes_refused");
    let absent = total.get("removals_of_absent_service");
    total.flush_into(&mut report);
    // distinct registry states the reference model went through: subsets of 3 services
    report.cover("states", 32u64.min(1 + transitions));
    report.cover("transitions", transitions);
    report.cover("traces_validated_against_impl", sequences);
    report.cover("evaluations", sequences);
    report.cover("distinct_nontrivial", sequences);
    report.cover(
        "rule",
        "all 9^len add/remove sequences (no state merging) on a real Server; after every event 4 probes through real \
         RpcClients over the in-process transport; every sequence is distinct; states = subsets of the 5 service instances in the reference model",
    );
    report.cover("sequence_length", len);
    report.cover("exhaustive", true);
    report.guard_nonzero("guard_probes_served", served);
    report.guard_nonzero("guard_probes_refused", refused);
    report.guard_nonzero("guard_removals_of_absent_service", absent);
    report.assume("requests travel through the in-process transport: URI construction, handler lookup, framing and status encoding are the production code; hyper/TCP are bypassed (covered by C14)");
    report.finish()
}

pub fn replay(case: &J) -> i32 {
    let mut seq = Vec::new();
    for e in case.get("events").and_then(|v| v.as_arr()).unwrap_or(&[]) {
        let t = e.as_str().unwrap_or("");
        let n: u8 = t.chars().last().and_then(|c| c.to_digit(10)).unwrap_or(1) as u8;
        seq.push(if t.starts_with("add") { Ev::Add(n) } else { Ev::Remove(n) });
    }
    let mut st = Stats::default();
    block_on(run_sequence(&seq, &mut st));
    println!("events: {:?}", seq);
    for f in &st.found {
        println!("{}: {}", f.key, f.what);
    }
    (!st.found.is_empty()) as i32
}
