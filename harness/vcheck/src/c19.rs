//! C19 — a peer receives the sender's keyspace state unchanged.
//!
//! Engine E4 + E1 (Layer B). *Static part*: every replica state of the C03 generators,
//! plus size families (n live x m tombstones for all n, m in 0..=40 so that every frame
//! length residue occurs; 1 000 and 5 000 entries; 1-8 origins; one or both sources
//! populated) is installed on a real node with `add_state` and fetched with the real
//! `ReplicationClient::get_state` through the real `ReplicationService` over the in-process
//! transport; the received set must equal the sender's full snapshot and answer a probe
//! grid of will_apply / insert / delete identically. *Dynamic part*: breadth-first search
//! by replay over request histories on the sender (sets, deletes, purges); after every
//! request the state a peer obtains must equal the sender's state at that moment.

use std::sync::Arc;
use std::time::Duration;

use datacake_crdt::{HLCTimestamp, OrSWotSet};
use datacake_eventual_consistency::test_utils::MemStore;
use datacake_eventual_consistency::verif as ec;
use datacake_node::Clock;
use datacake_rpc::Channel;
use vkit::bfs::{bfs_replay, BfsCfg};
use vkit::{fp128, par, Report, Stats, Tier, J};

use crate::c02::{self, Req, Step};
use crate::crdt::*;
use crate::gen::{p1_histories, p1_states, p2_pool, p2_states};
use crate::stores::Fault;
use crate::world::{decode_set, node_addr, reset_seams, Node, Set2, Wall};

fn stamp(secs: u64, counter: u16, node: u8) -> HLCTimestamp {
    HLCTimestamp::new(Duration::from_secs(BASE_SECS + secs), counter, node)
}

struct Family {
    name: String,
    states: Vec<(String, Set2)>,
}

fn size_state(n_live: usize, n_dead: usize, origins: u8, both_sources: bool) -> Set2 {
    let mut s = Set2::default();
    for i in 0..n_live {
        let node = (i % origins as usize) as u8 + 1;
        let src = if both_sources { i % 2 } else { 0 };
        s.insert_with_source(src, i as u64, stamp(i as u64, (i % 7) as u16, node));
    }
    for i in 0..n_dead {
        let node = (i % origins as usize) as u8 + 1;
        let src = if both_sources { (i + 1) % 2 } else { 0 };
        s.delete_with_source(src, 1_000_000 + i as u64, stamp(10_000 + i as u64, (i % 5) as u16, node));
    }
    s
}

fn families(tier: Tier) -> Vec<Family> {
    let mut out = Vec::new();
    for (name, h) in p1_histories(tier.is_thorough()) {
        out.push(Family {
            name: format!("generator P1: {name}"),
            states: p1_states(&h)
                .into_iter()
                .map(|l| (l.built_by.to_json().to_string_compact(), l.set))
                .collect(),
        });
    }
    out.push(Family {
        name: "generator P2".into(),
        states: p2_states(&p2_pool(), tier.pick(3, 4))
            .into_iter()
            .map(|l| (l.built_by.to_json().to_string_compact(), l.set))
            .collect(),
    });
    let grid = tier.pick(24usize, 40);
    let mut states = Vec::new();
    for n in 0..=grid {
        for m in 0..=grid {
            states.push((format!("{n} live x {m} tombstones, 2 origins, both sources"), size_state(n, m, 2, true)));
        }
    }
    out.push(Family { name: format!("size grid 0..={grid} x 0..={grid}"), states });
    let mut states = Vec::new();
    for origins in 1..=8u8 {
        for both in [false, true] {
            states.push((format!("30 live x 9 tombstones, {origins} origins, both_sources={both}"), size_state(30, 9, origins, both)));
        }
    }
    let big: Vec<usize> = if tier.is_thorough() { vec![1_000, 5_000, 20_000] } else { vec![1_000, 5_000] };
    for n in big {
        states.push((format!("{n} live x {} tombstones, 5 origins", n / 10), size_state(n, n / 10, 5, true)));
    }
    // purged replicas and a replica that only ever saw tombstones
    let mut purged = size_state(5, 12, 2, true);
    purged.insert_with_source(0, 77, stamp(100_000, 0, 1));
    purged.insert_with_source(1, 78, stamp(100_001, 0, 1));
    purged.insert_with_source(0, 79, stamp(100_000, 0, 2));
    purged.insert_with_source(1, 80, stamp(100_001, 0, 2));
    purged.purge_old_deletes();
    states.push(("after a purge".into(), purged));
    states.push(("tombstones only".into(), size_state(0, 17, 3, true)));
    states.push(("empty".into(), Set2::default()));
    out.push(Family { name: "origins / sources / large / purged".into(), states });
    out
}

/// will_apply / insert / delete on copies of both sets for a grid of probe operations.
fn probes_agree(sent: &Set2, got: &Set2) -> Option<String> {
    let snap = sent.verif_snapshot();
    let mut stamps: Vec<HLCTimestamp> = Vec::new();
    let around = |t: HLCTimestamp, out: &mut Vec<HLCTimestamp>| {
        let d = t.datacake_timestamp();
        out.push(t);
        out.push(HLCTimestamp::new(d + Duration::from_millis(4), t.counter(), t.node()));
        out.push(HLCTimestamp::new(d.saturating_sub(Duration::from_millis(4)), t.counter(), t.node()));
        out.push(HLCTimestamp::new(d, t.counter().wrapping_add(1), t.node()));
    };
    for (_, t) in snap.safe_stamps.iter().take(8) {
        around(*t, &mut stamps);
    }
    for m in &snap.max_stamps {
        for (_, t) in m.iter().take(8) {
            around(*t, &mut stamps);
        }
    }
    stamps.push(stamp(0, 0, 200));
    stamps.push(stamp(999_999, 0, 1));
    let mut keys: Vec<u64> = snap.entries.iter().take(3).map(|e| e.0).collect();
    keys.extend(snap.dead.iter().take(3).map(|e| e.0));
    keys.push(u64::MAX);
    for &k in &keys {
        for &t in &stamps {
            if sent.will_apply(k, t) != got.will_apply(k, t) {
                return Some(format!("will_apply({k}, {t}) differs"));
            }
            for del in [false, true] {
                for src in 0..2 {
                    let (mut a, mut b) = (sent.clone(), got.clone());
                    let op = Op { key: k, del, ts: t };
                    if apply(&mut a, src, op) != apply(&mut b, src, op) || a.verif_snapshot() != b.verif_snapshot() {
                        return Some(format!("{} of key {k} at {t} via source {src} behaves differently", if del { "delete" } else { "insert" }));
                    }
                }
            }
        }
    }
    None
}

async fn fetch(keyspace: &str, peer_clock: &Clock) -> Result<Set2, String> {
    let mut client = ec::ReplicationClient::<MemStore>::new(peer_clock.clone(), Channel::connect(node_addr(1)));
    client.get_state(keyspace).await.map(|(_, s)| s).map_err(|e| format!("{e:?}"))
}

fn static_family(fam: &Family, chunk: &[usize]) -> Stats {
    let mut st = Stats::default();
    let res = vkit::quiet::catch(|| {
        vkit::e2::block_on_fresh(async {
            let mut st = Stats::default();
            reset_seams();
            let _wall = Wall::start();
            let node = Node::start(1, "dc", Arc::new(MemStore::default())).await;
            let peer_clock = Clock::new(2);
            for &i in chunk {
                let (label, state) = &fam.states[i];
                let name = format!("ks-{i}");
                node.group.add_state(name.clone(), state.clone()).await;
                st.inc("transfers");
                let case = || J::obj().set("family", &fam.name).set("state", label.clone());
                let sent = state.verif_snapshot();
                let size_class = if sent.entries.len() + sent.dead.len() > 500 { "large" } else { "small" };
                match fetch(&name, &peer_clock).await {
                    Err(e) => st.violation(&format!("transfer-failed/{size_class}"), || format!("get_state failed: {e}"), case),
                    Ok(got) => {
                        let g = got.verif_snapshot();
                        if g != sent {
                            let what = if g.entries != sent.entries {
                                "live-entries"
                            } else if g.dead != sent.dead {
                                "tombstones"
                            } else {
                                "version-stamps"
                            };
                            st.violation(
                                &format!("received-state-differs/{what}/{size_class}"),
                                || format!("received {} live / {} tombstones, sender has {} / {}", g.entries.len(), g.dead.len(), sent.entries.len(), sent.dead.len()),
                                case,
                            );
                        } else {
                            st.seen("transferred_states", fp128(&sent));
                            if let Some(diff) = probes_agree(state, &got) {
                                st.violation("received-state-decides-differently", || diff.clone(), case);
                            }
                            st.inc("probe_grids");
                        }
                    },
                }
            }
            st
        })
    });
    match res {
        Ok(s) => st.merge(s),
        Err(p) => st.violation(
            "transfer-panicked",
            || format!("a state transfer panicked: {p}"),
            || J::obj().set("family", &fam.name).set("first_state_of_chunk", fam.states[chunk[0]].0.clone()),
        ),
    }
    st
}

// ------------------------------------------------------------------ dynamic part

fn dyn_alphabet(pool: &[Op]) -> Vec<Step> {
    let mut out = Vec::new();
    for (i, op) in pool.iter().enumerate() {
        for src in 0..2 {
            let req = if op.del { Req::Del { op: i, src } } else { Req::Set { op: i, src } };
            out.push(Step { req, fault: Fault::None });
        }
    }
    out.push(Step { req: Req::Purge, fault: Fault::None });
    out
}

async fn dyn_execute(pool: &[Op], history: &[Step], st: &mut Stats) -> Option<u128> {
    reset_seams();
    let _wall = Wall::start();
    let node = Node::start(1, "dc", Arc::new(MemStore::default())).await;
    let peer_clock = Clock::new(2);
    let ks = node.group.get_or_create_keyspace(c02::KS).await;
    let mut last = None;
    for (i, step) in history.iter().enumerate() {
        let _ = c02::send_request(&ks, pool, &step.req).await;
        // a peer polls after every request (this is also what fills any cache on the way)
        let got = fetch(c02::KS, &peer_clock).await;
        if i + 1 == history.len() {
            last = Some(got);
        }
    }
    let direct = match ks.send(ec::Serialize).await.map_err(|e| e.to_string()).and_then(|b| decode_set(&b)) {
        Ok(s) => s,
        Err(e) => {
            st.violation("sender-state-unreadable", || e.clone(), || c02::history_json(pool, history, "MemStore"));
            return None;
        },
    };
    let sent = direct.verif_snapshot();
    if let Some(got) = last {
        st.inc("transitions");
        let case = || c02::history_json(pool, history, "MemStore");
        let after = match history.last().map(|s| &s.req) {
            Some(Req::Purge) => "after-purge",
            Some(Req::Del { .. }) => "after-delete",
            _ => "after-set",
        };
        match got {
            Err(e) => st.violation(&format!("transfer-failed/{after}"), || format!("get_state failed: {e}"), case),
            Ok(got) => {
                let g = got.verif_snapshot();
                if g != sent {
                    let what = if g.entries != sent.entries {
                        "live-entries"
                    } else if g.dead != sent.dead {
                        "tombstones"
                    } else {
                        "version-stamps"
                    };
                    st.violation(
                        &format!("received-state-is-not-the-senders-current-state/{what}/{after}"),
                        || format!("peer received {} but the sender holds {}", snap_json(&g).to_string_compact(), snap_json(&sent).to_string_compact()),
                        case,
                    );
                }
            },
        }
    }
    Some(fp128(&sent))
}


// ------------------------------------------------------------------ undecodable states

/// A peer that answers `GetState` with arbitrary bytes in the `set` field. It registers
/// under the real service's name and the real message's path, with message and reply types
/// whose archived layout is that of `GetState` / `KeyspaceOrSwotSet`.
mod fake_peer {
    use datacake_crdt::HLCTimestamp;
    use datacake_rpc::{Handler, Request, RpcService, ServiceRegistry, Status};
    use rkyv::{Archive, Deserialize, Serialize};

    #[repr(C)]
    #[derive(Serialize, Deserialize, Archive)]
    #[archive(check_bytes)]
    pub struct GetStateLike {
        pub keyspace: String,
        pub timestamp: HLCTimestamp,
    }

    #[repr(C)]
    #[derive(Serialize, Deserialize, Archive)]
    #[archive(check_bytes)]
    pub struct StateLike {
        pub timestamp: HLCTimestamp,
        pub last_updated: HLCTimestamp,
        #[with(rkyv::with::Raw)]
        pub set: Vec<u8>,
    }

    pub struct FakeReplication {
        pub blob: Vec<u8>,
        pub stamp: HLCTimestamp,
    }

    impl RpcService for FakeReplication {
        fn service_name() -> &'static str {
            std::any::type_name::<datacake_eventual_consistency::verif::ReplicationService<datacake_eventual_consistency::test_utils::MemStore>>()
        }
        fn register_handlers(registry: &mut ServiceRegistry<Self>) {
            registry.add_handler::<GetStateLike>();
        }
    }

    #[datacake_rpc::async_trait]
    impl Handler<GetStateLike> for FakeReplication {
        type Reply = StateLike;
        fn path() -> &'static str {
            "datacake_eventual_consistency::rpc::services::replication_impl::GetState"
        }
        async fn on_message(&self, _msg: Request<GetStateLike>) -> Result<StateLike, Status> {
            Ok(StateLike { timestamp: self.stamp, last_updated: self.stamp, set: self.blob.clone() })
        }
    }
}

/// Fetches `blob` as a keyspace state from the fake peer through the real client.
fn fetch_blob(blob: &[u8]) -> Result<Result<Set2, String>, String> {
    let blob = blob.to_vec();
    vkit::quiet::catch(move || {
        vkit::e2::block_on_fresh(async move {
            reset_seams();
            let _wall = Wall::start();
            let server = datacake_rpc::Server::listen(node_addr(1)).await.expect("listen");
            let peer_clock = Clock::new(2);
            let stamp = Clock::new(1).get_time().await;
            server.add_service(fake_peer::FakeReplication { blob, stamp });
            let r = fetch("whatever", &peer_clock).await;
            server.shutdown();
            r
        })
    })
}

fn hex(b: &[u8]) -> String {
    b.iter().map(|b| format!("{b:02x}")).collect()
}

fn unhex(s: &str) -> Vec<u8> {
    (0..s.len() / 2).map(|i| u8::from_str_radix(&s[2 * i..2 * i + 2], 16).unwrap_or(0)).collect()
}

/// Child-process body: serve `blob` from the fake peer, fetch it with the real client and
/// print one verdict line. The reference is rkyv's validating decoder on the same bytes.
pub fn blob_worker(blob_hex: &str) -> i32 {
    let blob = unhex(blob_hex);
    let mut aligned = rkyv::AlignedVec::with_capacity(blob.len());
    aligned.extend_from_slice(&blob);
    let reference = Set2::from_bytes(&aligned).ok();
    let verdict = match (&reference, fetch_blob(&blob)) {
        (None, Err(p)) => format!("undecodable-panics {}", p.replace('\n', " ")),
        (None, Ok(Ok(_))) => "undecodable-used".to_string(),
        (None, Ok(Err(_))) => "undecodable-refused".to_string(),
        (Some(_), Err(p)) => format!("decodable-panics {}", p.replace('\n', " ")),
        (Some(r), Ok(Ok(s))) => {
            if r.verif_snapshot() == s.verif_snapshot() {
                "decodable-same".to_string()
            } else {
                "decodable-differs".to_string()
            }
        },
        (Some(_), Ok(Err(e))) => format!("decodable-refused {e}"),
    };
    println!("VERDICT {verdict}");
    0
}

fn probe_blob(blob: &[u8]) -> String {
    let exe = std::env::current_exe().expect("current exe");
    let out = std::process::Command::new(exe)
        .arg("--c19-blob-worker")
        .arg(hex(blob))
        .env_remove("RUST_BACKTRACE")
        .output()
        .expect("spawn blob worker");
    let text = String::from_utf8_lossy(&out.stdout);
    for line in text.lines() {
        if let Some(v) = line.strip_prefix("VERDICT ") {
            return v.to_string();
        }
    }
    let err = String::from_utf8_lossy(&out.stderr);
    format!(
        "process-died {:?} {}",
        out.status.code(),
        err.lines().filter(|l| !l.trim().is_empty()).last().unwrap_or("").trim()
    )
}

fn undecodable_blobs(tier: Tier) -> (Set2, Vec<(String, Vec<u8>)>) {
    let genuine = size_state(9, 4, 2, true);
    let bytes = genuine.as_bytes().expect("serialise").to_vec();
    let mut blobs: Vec<(String, Vec<u8>)> = vec![
        ("genuine state".into(), bytes.clone()),
        ("empty".into(), vec![]),
        ("one zero byte".into(), vec![0]),
        ("seven bytes".into(), vec![1, 2, 3, 4, 5, 6, 7]),
        ("sixteen zero bytes".into(), vec![0; 16]),
        ("sixteen 0xFF bytes".into(), vec![0xFF; 16]),
        ("text".into(), b"this is not an archived set at all, just some text....".to_vec()),
    ];
    for cut in (0..bytes.len()).step_by(tier.pick(16, 1)) {
        blobs.push((format!("genuine state truncated to {cut} of {} bytes", bytes.len()), bytes[..cut].to_vec()));
    }
    for pos in (0..bytes.len()).step_by(tier.pick(24, 1)) {
        let mut b = bytes.clone();
        b[pos] ^= 0xFF;
        blobs.push((format!("genuine state with byte {pos} inverted"), b));
    }
    // the tail holds the root object (relative pointers and lengths): every bit there
    let tail = bytes.len().saturating_sub(tier.pick(24, 200));
    for pos in tail..bytes.len() {
        for bit in 0..8 {
            let mut b = bytes.clone();
            b[pos] ^= 1 << bit;
            blobs.push((format!("genuine state with bit {bit} of byte {pos} flipped"), b));
        }
    }
    (genuine, blobs)
}

fn blob_kind(label: &str, len: usize) -> &'static str {
    if len < 64 {
        "short"
    } else if label.contains("truncated") {
        "truncated"
    } else {
        "damaged"
    }
}

fn undecodable_part(tier: Tier, st: &mut Stats) {
    let (_genuine, blobs) = undecodable_blobs(tier);
    // control: the impersonation works at all (otherwise everything below would be refused
    // for the wrong reason)
    let control = probe_blob(&blobs[0].1);
    if control != "decodable-same" {
        st.violation(
            "harness/fake-peer-control-transfer-failed",
            || format!("a genuine state served by the fake peer was not received intact: {control}"),
            || J::obj().set("blob", "genuine state"),
        );
        return;
    }
    let verdicts = vkit::par::par_map(&blobs, |_, b| probe_blob(&b.1));
    for ((label, blob), verdict) in blobs.iter().zip(verdicts) {
        st.inc("undecodable_candidates");
        let kind = blob_kind(label, blob.len());
        let case = || J::obj().set("blob", label.clone()).set("blob_len", blob.len()).set("blob_hex", hex(blob));
        let word = verdict.split(' ').next().unwrap_or("").to_string();
        match word.as_str() {
            "undecodable-refused" => {
                st.inc("undecodable_blobs");
                st.inc("undecodable_blobs_refused");
            },
            "undecodable-used" => {
                st.inc("undecodable_blobs");
                st.violation(
                    &format!("undecodable-state-used/{kind}"),
                    || format!("a state that does not decode ({label}) was accepted by the client as a state"),
                    case,
                );
            },
            "undecodable-panics" | "process-died" => {
                st.inc("undecodable_blobs");
                st.violation(
                    &format!("undecodable-state-crashes/{kind}"),
                    || format!("a state that does not decode ({label}) crashed the receiving side: {verdict}"),
                    case,
                );
            },
            "decodable-same" => st.inc("decodable_blobs"),
            _ => st.violation(&format!("decodable-state-mishandled/{word}"), || format!("{label}: {verdict}"), case),
        }
    }
}


// ------------------------------------------------------------------ state vs change stamp
//
// The reply to GetState carries the keyspace's change stamp next to the state; the poller
// remembers the stamp and does not ask again while PollKeyspace reports the same one. So the
// stamp names "the moment it answered": whenever the stamp of the reply equals the stamp the
// node advertises once everything is quiet, the state of the reply must be the node's state.
// Engine E2: a GetState request and one writer on the same keyspace, every interleaving of
// their await points, background tasks (the keyspace actor) stepped one poll at a time.

#[derive(Clone, Copy, Debug, PartialEq, Eq, Hash)]
enum Writer {
    Put,
    Del,
    RpcPut,
    PutMany,
}

#[derive(Clone, Debug, PartialEq, Eq, Default)]
struct StampObs {
    reply_stamp: Option<HLCTimestamp>,
    final_stamp: Option<HLCTimestamp>,
    reply_state: (Vec<(u64, HLCTimestamp)>, Vec<(u64, HLCTimestamp)>),
    final_state: (Vec<(u64, HLCTimestamp)>, Vec<(u64, HLCTimestamp)>),
    errors: Vec<String>,
}

fn live_and_dead(s: &Set2) -> (Vec<(u64, HLCTimestamp)>, Vec<(u64, HLCTimestamp)>) {
    let snap = s.verif_snapshot();
    let mut live: Vec<(u64, HLCTimestamp)> = snap.entries.iter().map(|e| (e.0, e.1)).collect();
    let mut dead: Vec<(u64, HLCTimestamp)> = snap.dead.iter().map(|e| (e.0, e.1)).collect();
    live.sort();
    dead.sort();
    (live, dead)
}

const STAMP_KS: &str = "stamped";

fn stamp_run_one(writers: &[Writer], prefix: &[usize], fine: bool) -> (vkit::e2::Run, StampObs) {
    use datacake_eventual_consistency::Document;
    use datacake_node::Consistency;
    use vkit::e2::{self, Client, DriveCfg};
    let body = async {
        reset_seams();
        let _wall = Wall::start();
        let node = Node::start(1, "dc", Arc::new(MemStore::default())).await;
        node.set_membership(&[(1, "dc".into())]).await;
        node.store.put(STAMP_KS, 1, vec![1], Consistency::None).await.expect("pre put");
        e2::settle().await;
        let peer_clock = Clock::new(2);
        let reply = std::rc::Rc::new(std::cell::RefCell::new(None::<(HLCTimestamp, Set2)>));
        let errors = std::rc::Rc::new(std::cell::RefCell::new(Vec::<String>::new()));
        let mut clients: Vec<Option<Client>> = Vec::new();
        {
            let reply = reply.clone();
            let errors = errors.clone();
            let peer_clock = peer_clock.clone();
            clients.push(Some(Box::pin(async move {
                let mut c = ec::ReplicationClient::<MemStore>::new(peer_clock, Channel::connect(node_addr(1)));
                match c.get_state(STAMP_KS).await {
                    Ok(r) => *reply.borrow_mut() = Some(r),
                    Err(e) => errors.borrow_mut().push(format!("get_state: {e:?}")),
                }
            }) as Client));
        }
        for (i, w) in writers.iter().enumerate() {
            let id = 2 + i as u64;
            let store = node.store.clone();
            let errors = errors.clone();
            let peer_clock = peer_clock.clone();
            let w = *w;
            clients.push(Some(Box::pin(async move {
                let res = match w {
                    Writer::Put => store.put(STAMP_KS, id, vec![id as u8], Consistency::None).await.map_err(|e| e.to_string()),
                    Writer::Del => store.del(STAMP_KS, 1, Consistency::None).await.map_err(|e| e.to_string()),
                    Writer::PutMany => store
                        .put_many(STAMP_KS, vec![(id, vec![id as u8]), (id + 10, vec![0])], Consistency::None)
                        .await
                        .map_err(|e| e.to_string()),
                    Writer::RpcPut => {
                        let mut c = ec::ConsistencyClient::<MemStore>::new(peer_clock.clone(), Channel::connect(node_addr(1)));
                        let doc = Document::new(id, peer_clock.get_time().await, vec![id as u8]);
                        c.put(STAMP_KS, doc, 2, node_addr(2)).await.map_err(|e| e.to_string())
                    },
                };
                if let Err(e) = res {
                    errors.borrow_mut().push(format!("{w:?}: {e}"));
                }
            }) as Client));
        }
        let run = e2::drive(clients, prefix, &DriveCfg { interleave_background: fine, ..DriveCfg::default() }).await;
        e2::settle().await;
        let mut obs = StampObs::default();
        obs.errors = errors.borrow().clone();
        if let Some((stamp, set)) = reply.borrow().as_ref() {
            obs.reply_stamp = Some(*stamp);
            obs.reply_state = live_and_dead(set);
        }
        // what the node advertises to pollers once everything is quiet, through the real service
        let mut c = ec::ReplicationClient::<MemStore>::new(peer_clock.clone(), Channel::connect(node_addr(1)));
        match c.poll_keyspace().await {
            Ok(m) => obs.final_stamp = m.get(STAMP_KS).copied(),
            Err(e) => obs.errors.push(format!("poll_keyspace: {e:?}")),
        }
        match node.set_of(STAMP_KS).await {
            Ok(set) => obs.final_state = live_and_dead(&set),
            Err(e) => obs.errors.push(e),
        }
        (run, obs)
    };
    if fine {
        vkit::e2::block_on_fresh_fine(body)
    } else {
        vkit::e2::block_on_fresh(body)
    }
}

fn stamp_case(writers: &[Writer], run: &vkit::e2::Run, fine: bool) -> J {
    J::obj()
        .set("stamp_block_writers", writers.iter().map(|w| format!("{w:?}")).collect::<Vec<_>>())
        .set("schedule", run.choices.clone())
        .set("fine_grained", fine)
}

fn stamp_judge(writers: &[Writer], fine: bool, run: &vkit::e2::Run, obs: &StampObs, st: &mut Stats) {
    st.inc("stamp_executions");
    let rank = (run.deviations() as u64) << 32 | run.choices.len() as u64;
    let case = || stamp_case(writers, run, fine);
    if run.deadlocked {
        st.violation_ranked("state-request-never-finished", rank, || "tasks never finished".to_string(), case);
        return;
    }
    if !obs.errors.is_empty() {
        st.violation_ranked("state-request-failed-during-a-write", rank, || format!("{:?}", obs.errors), case);
        return;
    }
    if obs.reply_stamp.is_some() && obs.reply_stamp == obs.final_stamp {
        st.inc("stamp_replies_current");
        if obs.reply_state != obs.final_state {
            st.violation_ranked(
                "state-older-than-the-change-stamp-sent-with-it",
                rank,
                || {
                    format!(
                        "the reply carries change stamp {} — the one the node still advertises — but its state (live, tombstones) {:?} is not the node's state {:?}",
                        obs.reply_stamp.unwrap(),
                        obs.reply_state,
                        obs.final_state
                    )
                },
                case,
            );
        }
    } else {
        st.inc("stamp_replies_superseded");
    }
    st.seen("stamp_schedules", fp128(&(writers, fine, &run.choices)));
    st.seen("stamp_outcomes", fp128(&(writers, obs.reply_stamp == obs.final_stamp, &obs.reply_state)));
}

fn stamp_block(tier: Tier, total: &mut Stats) -> bool {
    use vkit::e2::{explore, ExploreCfg};
    let mut capped = false;
    let mut nondet = 0;
    let singles = [Writer::Put, Writer::Del, Writer::RpcPut, Writer::PutMany];
    let mut scenarios: Vec<(Vec<Writer>, bool, Option<usize>)> = Vec::new();
    for w in singles {
        scenarios.push((vec![w], false, None));
        scenarios.push((vec![w], true, Some(tier.pick(3, 5))));
    }
    scenarios.push((vec![Writer::Put, Writer::Del], false, Some(tier.pick(3, 6))));
    scenarios.push((vec![Writer::Put, Writer::RpcPut], true, Some(tier.pick(2, 4))));
    for (writers, fine, bound) in &scenarios {
        let cfg = ExploreCfg { max_deviations: *bound, max_executions: 2_000_000, determinism_check_every: 53 };
        let (st, sum) = explore(&cfg, |p| stamp_run_one(writers, p, *fine), |st, run, obs| stamp_judge(writers, *fine, run, obs, st));
        total.merge(st);
        capped |= sum.capped;
        nondet += sum.nondeterministic + sum.prefix_misfits;
    }
    if nondet > 0 {
        total.violation("harness/stamp-block-nondeterministic", || format!("{nondet} executions did not reproduce"), || J::obj());
    }
    capped
}

pub fn run(tier: Tier) -> i32 {
    let mut report = Report::new("C19", tier, "exploration");
    let mut total = Stats::default();
    let fams = families(tier);
    let mut fam_json = Vec::new();
    for fam in &fams {
        fam_json.push(J::obj().set("family", &fam.name).set("states", fam.states.len()));
        let idx: Vec<usize> = (0..fam.states.len()).collect();
        let chunks: Vec<Vec<usize>> = idx.chunks(40).map(|c| c.to_vec()).collect();
        let parts = par::par_map(&chunks, |_, chunk| static_family(fam, chunk));
        for p in parts {
            total.merge(p);
        }
        let mid = &fam.states[fam.states.len() / 2];
        total.sample(|| J::obj().set("family", &fam.name).set("state", mid.0.chars().take(400).collect::<String>()));
    }

    undecodable_part(tier, &mut total);

    let pool = c02::pool();
    let al = dyn_alphabet(&pool);
    let cfg = BfsCfg { max_depth: tier.pick(4, 6), max_states: tier.pick(4_000, 400_000) };
    let (st, sum) = bfs_replay(
        &cfg,
        |_h: &[Step]| al.clone(),
        |h, st| vkit::e2::block_on_fresh(dyn_execute(&pool, h, st)),
    );
    total.merge(st);

    let stamp_capped = stamp_block(tier, &mut total);
    let stamp_execs = total.get("stamp_executions");
    let stamp_current = total.get("stamp_replies_current");
    let stamp_superseded = total.get("stamp_replies_superseded");
    let stamp_schedules = total.distinct_count("stamp_schedules");

    let transfers = total.get("transfers");
    let grids = total.get("probe_grids");
    let distinct = total.distinct_count("transferred_states");
    total.flush_into(&mut report);
    report.cover("evaluations", transfers + sum.transitions);
    report.cover("distinct_nontrivial", distinct + sum.states);
    report.cover(
        "rule",
        "static: every generator state and every state of the size/origin/source families is installed on a real node \
         and fetched through the real ReplicationService/ReplicationClient; distinct by full snapshot. dynamic: BFS by \
         replay over request histories (20 single operations + purge), a peer fetching after every request; distinct by sender snapshot",
    );
    report.cover("families", J::Arr(fam_json));
    report.cover("static_transfers", transfers);
    report.cover("probe_grids", grids);
    report.cover("dynamic_states", sum.states);
    report.cover("dynamic_transitions", sum.transitions);
    report.cover("dynamic_depth", sum.depth_reached);
    report.cover("dynamic_frontier_left_unexplored", sum.frontier_left);
    report.cover("stamp_block_executions", stamp_execs);
    report.cover("stamp_block_schedules", stamp_schedules);
    report.cover("stamp_block_replies_with_current_stamp", stamp_current);
    report.cover("stamp_block_replies_with_superseded_stamp", stamp_superseded);
    report.cover("stamp_block_capped", stamp_capped);
    report.guard(stamp_current > 10 && stamp_superseded > 10, "stamp block: the write never lands on both sides of the state request");
    report.cover("exhaustive", true);
    report.guard(distinct > 500, "fewer than 500 distinct states transferred");
    report.guard(report.cover_get("undecodable_blobs") > 20, "fewer than 20 undecodable blobs were tried");
    report.guard(sum.states > 100, "fewer than 100 dynamic states");
    report.assume("in-process transport: the reply body is a single chunk; the multi-chunk HTTP/2 path is exercised by the turmoil harness of C14");
    report.assume("debug assertions are on: a misaligned or out-of-bounds access while decoding the nested archive panics instead of being undefined behaviour");
    report.finish()
}

pub fn replay(case: &J) -> i32 {
    if let Some(h) = case.get("blob_hex").and_then(|v| v.as_str()) {
        let verdict = probe_blob(&unhex(h));
        println!("blob served by the fake peer: {verdict}");
        return !(verdict == "undecodable-refused" || verdict == "decodable-same") as i32;
    }
    if let Some(ws) = case.get("stamp_block_writers").and_then(|v| v.as_arr()) {
        let writers: Vec<Writer> = ws
            .iter()
            .filter_map(|w| match w.as_str()? {
                "Put" => Some(Writer::Put),
                "Del" => Some(Writer::Del),
                "RpcPut" => Some(Writer::RpcPut),
                "PutMany" => Some(Writer::PutMany),
                _ => None,
            })
            .collect();
        let schedule: Vec<usize> =
            case.get("schedule").and_then(|v| v.as_arr()).unwrap_or(&[]).iter().filter_map(|v| v.as_u64().map(|x| x as usize)).collect();
        let fine = case.get("fine_grained").and_then(|v| v.as_bool()).unwrap_or(false);
        let (run, obs) = stamp_run_one(&writers, &schedule, fine);
        let (run2, obs2) = stamp_run_one(&writers, &schedule, fine);
        if run != run2 || obs != obs2 {
            eprintln!("replay is not deterministic");
            return 2;
        }
        println!("ran: {:?}\n{obs:#?}", run.ran);
        let mut st = Stats::default();
        stamp_judge(&writers, fine, &run, &obs, &mut st);
        for f in &st.found {
            println!("{}: {}", f.key, f.what);
        }
        return (!st.found.is_empty()) as i32;
    }
    if case.get("requests").is_some() {
        let pool = c02::pool();
        // reuse C02's history format
        let mut st = Stats::default();
        let steps: Vec<Step> = {
            // parse through C02's own replay parser by round-tripping the JSON
            let arr = case.get("requests").and_then(|v| v.as_arr()).unwrap_or(&[]);
            arr.iter().filter_map(c02_step).collect()
        };
        vkit::e2::block_on_fresh(dyn_execute(&pool, &steps, &mut st));
        for f in &st.found {
            println!("{}: {}", f.key, f.what);
        }
        return (!st.found.is_empty()) as i32;
    }
    eprintln!("static C19 cases are identified by family + state label; re-run ./check C19 to reproduce: {}", case.to_string_compact());
    let _ = OrSWotSet::<2>::default();
    2
}

fn c02_step(j: &J) -> Option<Step> {
    let idx = |d: &J| d.get("pool_index").and_then(|v| v.as_u64()).map(|v| v as usize);
    let src = j.get("src").and_then(|v| v.as_u64()).unwrap_or(0) as usize;
    let req = match j.get("request")?.as_str()? {
        "Set" => Req::Set { op: idx(j.get("doc")?)?, src },
        "Del" => Req::Del { op: idx(j.get("doc")?)?, src },
        _ => Req::Purge,
    };
    Some(Step { req, fault: Fault::None })
}
