//! C10 — timestamp encoding is lossless and order-preserving; parsing never panics.
//!
//! Engine E4: complete cartesian products over boundary grids. Round trips for every
//! valid (seconds, fractional, counter, node) of the grid, order agreement for every
//! ordered pair, and `from_str` on every string of a small hostile grammar, each call under
//! `catch_unwind`.

use std::cmp::Ordering;
use std::str::FromStr;
use std::time::Duration;

use datacake_crdt::{HLCTimestamp, DATACAKE_EPOCH};
use vkit::quiet::catch;
use vkit::{par, Report, Stats, Tier, J};

type Parts = (u64, u8, u16, u8);

fn grid(tier: Tier) -> Vec<Parts> {
    let seconds: Vec<u64> = vec![0, 1, (1 << 31) - 1, 1 << 31, (1u64 << 32) - 2, (1u64 << 32) - 1];
    let mut fractional: Vec<u8> = vec![0, 1, 124, 248, 249];
    let mut counter: Vec<u16> = vec![0, 1, 255, 256, 65534, 65535];
    let mut node: Vec<u8> = vec![0, 1, 127, 128, 255];
    if tier.is_thorough() {
        fractional.extend([2, 63, 64, 125, 127, 128, 200]);
        counter.extend([2, 127, 128, 257, 32767, 32768, 0x0FFF, 0xF000]);
        node.extend([2, 15, 16, 254]);
    }
    let mut out = Vec::new();
    for &s in &seconds {
        for &f in &fractional {
            for &c in &counter {
                for &n in &node {
                    out.push((s, f, c, n));
                }
            }
        }
    }
    out
}

fn duration_of(p: Parts) -> Duration {
    Duration::from_secs(p.0) + Duration::from_millis(p.1 as u64 * 4)
}

fn parts_json(p: Parts) -> J {
    J::obj()
        .set("seconds", p.0)
        .set("fractional", p.1)
        .set("counter", p.2)
        .set("node", p.3)
}

fn round_trips(p: Parts, st: &mut Stats) {
    st.inc("round_trip_cases");
    let built = catch(|| HLCTimestamp::new(duration_of(p), p.2, p.3));
    let ts = match built {
        Ok(ts) => ts,
        Err(_) => {
            st.violation(
                "new-panics-on-valid-parts",
                || format!("HLCTimestamp::new panicked for {p:?}"),
                || parts_json(p),
            );
            return;
        },
    };
    let bad = |st: &mut Stats, key: &str, what: String| {
        st.violation(key, || what, || parts_json(p));
    };
    if (ts.seconds(), ts.fractional(), ts.counter(), ts.node()) != p {
        bad(
            st,
            "accessors-differ",
            format!(
                "built from {p:?}, accessors give {:?}",
                (ts.seconds(), ts.fractional(), ts.counter(), ts.node())
            ),
        );
    }
    let layout = (p.0 << 32) | ((p.1 as u64) << 24) | ((p.2 as u64) << 8) | p.3 as u64;
    if ts.as_u64() != layout {
        bad(st, "packed-layout-differs", format!("{p:?} packs to {:#x}, layout 32|8|16|8 gives {layout:#x}", ts.as_u64()));
    }
    if HLCTimestamp::from_u64(ts.as_u64()) != ts {
        bad(st, "u64-round-trip", format!("from_u64(as_u64) differs for {p:?}"));
    }
    if ts.datacake_timestamp() != duration_of(p) || ts.unix_timestamp() != duration_of(p) + DATACAKE_EPOCH {
        bad(st, "duration-round-trip", format!("durations differ for {p:?}"));
    }
    // sub-quantum durations are truncated to 4 ms resolution, nothing else changes
    for extra_ms in [1u64, 3] {
        let d = duration_of(p) + Duration::from_millis(extra_ms);
        if let Ok(t2) = catch(|| HLCTimestamp::new(d, p.2, p.3)) {
            if t2 != ts {
                bad(st, "quantisation", format!("+{extra_ms}ms changed the stamp for {p:?}"));
            }
        }
    }
    // text form
    let text = ts.to_string();
    match catch(|| HLCTimestamp::from_str(&text)) {
        Ok(Ok(back)) if back == ts => {},
        Ok(Ok(back)) => bad(st, "text-round-trip", format!("{text:?} parses to {back} (wanted {ts})")),
        Ok(Err(_)) => bad(st, "text-round-trip", format!("printed form {text:?} of {p:?} does not parse")),
        Err(_) => bad(st, "parse-panics", format!("from_str panicked on printed form {text:?}")),
    }
    // archived form
    let bytes = rkyv::to_bytes::<_, 64>(&ts).expect("serialize");
    let archived = rkyv::check_archived_root::<HLCTimestamp>(&bytes);
    match archived {
        Ok(a) => {
            if a.cast() != ts {
                bad(st, "archive-round-trip", format!("archived cast gives {} for {ts}", a.cast()));
            }
        },
        Err(_) => bad(st, "archive-round-trip", format!("archived form of {ts} does not validate")),
    }
    let de: HLCTimestamp = rkyv::from_bytes(&bytes).expect("deserialize");
    if de != ts {
        bad(st, "archive-round-trip", format!("deserialised {de} for {ts}"));
    }
}

fn field_values() -> Vec<&'static str> {
    vec![
        "",
        "0",
        "7",
        "249",
        "250",
        "255",
        "256",
        "FFFF",
        "10000",
        "4294967295",
        "4294967296",
        "18446744073709551615",
        "18446744073709551616",
        "-1",
        "zz",
        " 1",
    ]
}

fn check_parse(text: &str, st: &mut Stats) {
    st.inc("parse_cases");
    let res = catch(|| HLCTimestamp::from_str(text));
    match res {
        Err(msg) => {
            let shape = if msg.contains("overflow") {
                "duration-overflow"
            } else if msg.contains("maximum capacity") {
                "seconds-out-of-range"
            } else {
                "other"
            };
            st.violation(
                &format!("parse-panics/{shape}"),
                || format!("from_str({text:?}) panicked: {msg}"),
                || J::obj().set("text", text),
            );
        },
        Ok(Err(_)) => st.inc("parse_rejected"),
        Ok(Ok(ts)) => {
            st.inc("parse_accepted");
            let again = ts.to_string();
            match catch(|| HLCTimestamp::from_str(&again)) {
                Ok(Ok(back)) if back == ts => {},
                _ => st.violation(
                    "accepted-text-does-not-round-trip",
                    || format!("{text:?} parsed to {ts}, whose printed form {again:?} does not parse back to it"),
                    || J::obj().set("text", text),
                ),
            }
        },
    }
}

pub fn run(tier: Tier) -> i32 {
    let mut report = Report::new("C10", tier, "exploration");
    let grid = grid(tier);
    let mut total = Stats::default();

    // 1. round trips
    for &p in &grid {
        round_trips(p, &mut total);
    }
    total.sample(|| parts_json(grid[grid.len() / 2]));

    // 2. order: all ordered pairs
    let stamps: Vec<(Parts, Option<HLCTimestamp>)> = grid
        .iter()
        .map(|&p| (p, catch(|| HLCTimestamp::new(duration_of(p), p.2, p.3)).ok()))
        .collect();
    let idx: Vec<usize> = (0..stamps.len()).collect();
    let parts = par::par_map(&idx, |_, &i| {
        let mut st = Stats::default();
        let (pa, Some(a)) = stamps[i] else { return st };
        for &(pb, b) in &stamps {
            let Some(b) = b else { continue };
            st.inc("order_pairs");
            let want: Ordering = pa.cmp(&pb);
            if a.cmp(&b) != want || a.partial_cmp(&b) != Some(want) || (a == b) != (want == Ordering::Equal) {
                st.violation(
                    "order-differs-from-lexicographic",
                    || format!("{a} vs {b}: cmp gives {:?}, (time, counter, node) gives {want:?}", a.cmp(&b)),
                    || J::obj().set("a", parts_json(pa)).set("b", parts_json(pb)),
                );
            }
        }
        st
    });
    for p in parts {
        total.merge(p);
    }

    // 3. parsing: every a-b-c-d over the field grid
    let fields = field_values();
    let firsts: Vec<&str> = fields.clone();
    let parts = par::par_map(&firsts, |_, a| {
        let mut st = Stats::default();
        for b in &fields {
            for c in &fields {
                for d in &fields {
                    check_parse(&format!("{a}-{b}-{c}-{d}"), &mut st);
                }
            }
        }
        st
    });
    for p in parts {
        total.merge(p);
    }
    total.sample(|| J::obj().set("text", "4294967296-250-FFFF-255"));

    // 4. structural variants
    let mut structural: Vec<String> = vec![
        "".into(),
        "-".into(),
        "--".into(),
        "---".into(),
        "----".into(),
        "-----".into(),
        "------".into(),
        "1".into(),
        "1-2".into(),
        "1-2-3".into(),
        "1-2-3-4".into(),
        "1-2-3-4-".into(),
        "1-2-3-4-5".into(),
        "1-2-3--4".into(),
        "1--2-3-4".into(),
        "-1-2-3-4".into(),
        "1-2-3-4\n".into(),
        "１-２-３-４".into(),
        "1-2-३-4".into(),
        "1-2-3-4\u{0}".into(),
        "+1-+2-+3-+4".into(),
        "1-2-0x3-4".into(),
        "1-2-ffff-4".into(),
        "1-2-FFFFF-4".into(),
        "1e3-2-3-4".into(),
        "1.0-2-3-4".into(),
        "4294967295-0249-FFFF-0255".into(),
        "4294967295-249-FFFF-255".into(),
        "4294967295-250-0-0".into(),
        "4294967295-255-0-0".into(),
        "4294967294-250-0-0".into(),
        "004294967295-249-0-0".into(),
        "99999999999999999999999999-0-0-0".into(),
    ];
    if tier.is_thorough() {
        // every fractional value at the two top seconds and at zero
        for s in [0u64, (1 << 32) - 2, (1 << 32) - 1, 1 << 32] {
            for f in 0..=255u32 {
                structural.push(format!("{s}-{f}-0-0"));
                structural.push(format!("{s}-{f:0>4}-FFFF-0255"));
            }
        }
    }
    // 5. multi-byte characters at every offset of printed forms (inserted and replacing a
    //    character): a parser that cuts the text at byte offsets must not cut inside one
    //    (added after the seeded change C10-e)
    for base in ["12-0000-0000-0000", "4294967295-0249-FFFF-0255", "1-2-3-4", "0-0000-0000-0000", "12345-0100-00A0-0001"] {
        let chars: Vec<char> = base.chars().collect();
        for at in 0..=chars.len() {
            for wide in ["\u{e9}", "\u{20ac}", "\u{1f600}", "\u{e9}\u{20ac}"] {
                let head: String = chars[..at].iter().collect();
                let tail: String = chars[at..].iter().collect();
                structural.push(format!("{head}{wide}{tail}"));
                if at < chars.len() {
                    let tail: String = chars[at + 1..].iter().collect();
                    structural.push(format!("{head}{wide}{tail}"));
                }
            }
        }
    }
    for t in &structural {
        check_parse(t, &mut total);
    }

    let accepted = total.get("parse_accepted");
    let rejected = total.get("parse_rejected");
    let rt = total.get("round_trip_cases");
    let pairs = total.get("order_pairs");
    let parses = total.get("parse_cases");
    total.flush_into(&mut report);
    report.cover("evaluations", rt + pairs + parses);
    report.cover("distinct_nontrivial", rt + parses);
    report.cover(
        "rule",
        "complete products: every (seconds, fractional, counter, node) of the boundary grid for round trips, every \
         ordered pair of them for ordering, every string a-b-c-d over 16 field spellings plus structural variants for \
         parsing; all cases are distinct by construction; distinct_nontrivial = distinct round-trip triples + distinct strings",
    );
    report.cover("exhaustive", true);
    report.cover("grid_points", grid.len());
    report.guard_nonzero("guard_parse_accepted", accepted);
    report.guard_nonzero("guard_parse_rejected", rejected);
    report.assume("values between the grid points are not covered");
    report.finish()
}

pub fn replay(case: &J) -> i32 {
    let mut st = Stats::default();
    if let Some(text) = case.get("text").and_then(|v| v.as_str()) {
        check_parse(text, &mut st);
        println!("from_str({text:?}): {}", if st.found.is_empty() { "ok".to_string() } else { st.found[0].what.clone() });
    } else if let (Some(a), Some(b)) = (case.get("a"), case.get("b")) {
        let f = |j: &J| -> Parts {
            (
                j.get("seconds").and_then(|v| v.as_u64()).unwrap_or(0),
                j.get("fractional").and_then(|v| v.as_u64()).unwrap_or(0) as u8,
                j.get("counter").and_then(|v| v.as_u64()).unwrap_or(0) as u16,
                j.get("node").and_then(|v| v.as_u64()).unwrap_or(0) as u8,
            )
        };
        let (pa, pb) = (f(a), f(b));
        let (ta, tb) = (
            HLCTimestamp::new(duration_of(pa), pa.2, pa.3),
            HLCTimestamp::new(duration_of(pb), pb.2, pb.3),
        );
        println!("{ta} vs {tb}: {:?}, reference {:?}", ta.cmp(&tb), pa.cmp(&pb));
        return (ta.cmp(&tb) != pa.cmp(&pb)) as i32;
    } else {
        let p: Parts = (
            case.get("seconds").and_then(|v| v.as_u64()).unwrap_or(0),
            case.get("fractional").and_then(|v| v.as_u64()).unwrap_or(0) as u8,
            case.get("counter").and_then(|v| v.as_u64()).unwrap_or(0) as u16,
            case.get("node").and_then(|v| v.as_u64()).unwrap_or(0) as u8,
        );
        round_trips(p, &mut st);
        for f in &st.found {
            println!("{}: {}", f.key, f.what);
        }
    }
    (!st.found.is_empty()) as i32
}
