//! vsim — C14: under network faults an RPC answers correctly or fails; never twice or mixed.
//!
//! Engine E3: the real datacake-rpc client and server (hyper / h2) run over turmoil's
//! simulated network with fixed latency, 1 ms ticks and a fixed-seed RNG. A controller
//! applies the k-th element of a *fault script* (none / hold / release / partition /
//! repair on the client<->server link) at the k-th decision instant (every 250 ms for
//! 4 s); ALL scripts with at most `max_faults` non-none events are enumerated, for every
//! workload x handler delay x timeout setting. Every run is executed twice and must
//! reproduce.

use std::collections::BTreeMap;
use std::net::{IpAddr, Ipv4Addr, SocketAddr};
use std::sync::{Arc, Mutex};
use std::time::Duration;

use datacake_rpc::{Channel, ErrorCode, Handler, Request, RpcClient, RpcService, Server, ServiceRegistry, Status};
use rand::rngs::SmallRng;
use rand::SeedableRng;
use rkyv::{Archive, Deserialize, Serialize};
use turmoil::{lookup, Builder};
use vkit::{fp128, par, Report, Stats, Tier, J};

const PORT: u16 = 9999;
const SLOTS: usize = 16;
const SLOT: Duration = Duration::from_millis(250);
const TIMEOUT: Duration = Duration::from_secs(2);

#[repr(C)]
#[derive(Serialize, Deserialize, Archive, PartialEq, Debug, Clone)]
#[archive(check_bytes)]
pub struct Ask {
    id: u32,
    padding: Vec<u8>,
    /// number of bytes the handler is to put into the reply's `echo`
    reply_pad: u32,
}

#[repr(C)]
#[derive(Serialize, Deserialize, Archive, PartialEq, Debug, Clone)]
#[archive(check_bytes)]
pub struct Answer {
    id_times_ten: u32,
    padding_len: u32,
    padding_sum: u64,
    echo: Vec<u8>,
}

fn echo_bytes(id: u32, n: usize) -> Vec<u8> {
    (0..n).map(|i| ((i * 7 + id as usize) % 253) as u8).collect()
}

#[repr(C)]
#[derive(Serialize, Deserialize, Archive, PartialEq, Debug, Clone)]
#[archive(check_bytes)]
pub struct Download {
    id: u32,
    len: u32,
}

pub struct Svc {
    runs: Arc<Mutex<BTreeMap<u32, u32>>>,
    delay: Duration,
}

impl RpcService for Svc {
    fn register_handlers(registry: &mut ServiceRegistry<Self>) {
        registry.add_handler::<Ask>();
        registry.add_handler::<Download>();
    }
}

#[datacake_rpc::async_trait]
impl Handler<Ask> for Svc {
    type Reply = Answer;
    async fn on_message(&self, msg: Request<Ask>) -> Result<Answer, Status> {
        let ask: Ask = msg.deserialize_view().map_err(Status::internal)?;
        *self.runs.lock().unwrap().entry(ask.id).or_insert(0) += 1;
        if !self.delay.is_zero() {
            tokio::time::sleep(self.delay).await;
        }
        Ok(Answer {
            id_times_ten: ask.id * 10,
            padding_len: ask.padding.len() as u32,
            padding_sum: ask.padding.iter().map(|b| *b as u64).sum(),
            echo: echo_bytes(ask.id, ask.reply_pad as usize),
        })
    }
}

#[datacake_rpc::async_trait]
impl Handler<Download> for Svc {
    type Reply = datacake_rpc::Body;
    async fn on_message(&self, msg: Request<Download>) -> Result<datacake_rpc::Body, Status> {
        let d: Download = msg.deserialize_view().map_err(Status::internal)?;
        *self.runs.lock().unwrap().entry(d.id).or_insert(0) += 1;
        Ok(datacake_rpc::Body::from(echo_bytes(d.id, d.len as usize)))
    }
}

#[derive(Clone, Copy, Debug, PartialEq, Eq, Hash)]
enum Fault {
    None,
    Hold,
    Release,
    Partition,
    Repair,
}

#[derive(Clone, Copy, Debug, PartialEq, Eq, Hash)]
enum Workload {
    /// three requests one after another on one channel
    Sequential,
    /// two requests at once on a fresh channel (both race to establish the connection)
    ConcurrentFresh,
    /// one warm-up request, then three at once on the established connection
    ConcurrentWarm,
    /// one 1 MiB request (multi-chunk HTTP/2 body in both directions of the framing code)
    Large,
    /// one warm-up request, then several at once whose *replies* are large enough to use up
    /// the connection's HTTP/2 flow-control window between them (a reply body then starts
    /// with a short frame and continues after the window update); sizes per variant
    LargeReplies(u8),
    /// one warm-up request; a raw-body download whose reply the application leaves unread
    /// (it occupies most of the connection's flow-control window); then typed requests on
    /// the same channel; finally the download is read. (download size, typed reply sizes)
    UnreadStream(u8),
    /// `Sequential` and `ConcurrentWarm` once more through `send_owned` (the by-value entry
    /// point of the client, with its own code path to the same transport)
    SequentialOwned,
    ConcurrentWarmOwned,
    /// `ConcurrentWarm`, but the first of the three concurrent requests goes through a clone
    /// configured with a much longer timeout (15 s): clients sharing one channel must not
    /// inherit each other's patience
    ConcurrentWarmMixed,
    /// three calls *prepared* first (`send` returns a lazy future; nothing travels until it is
    /// awaited) and awaited one after the other: a call's timeout is its own, counted from
    /// the moment it is driven, not from the moment it was built
    Prepared,
    /// `Sequential` with the client timeout set to `Duration::MAX` ("practically unlimited",
    /// what a configuration value ends up as): every request must still be answered
    SequentialUnbounded,
}

/// The timeout of the patient sibling in `ConcurrentWarmMixed` (request id 2).
const LONG_TIMEOUT: Duration = Duration::from_secs(15);

const UNREAD_STREAM_VARIANTS: [(usize, &[usize]); 9] = [
    (50_000, &[16_000]),
    (45_000, &[18_000]),
    (55_000, &[12_000]),
    (30_000, &[20_000, 20_000]),
    (50_000, &[15_000, 15_000]),
    (35_000, &[16_000, 16_000]),
    (52_000, &[14_000, 100]),
    (48_000, &[17_000]),
    (20_000, &[46_000]),
];

const LARGE_REPLY_VARIANTS: [&[usize]; 9] = [
    &[50_000, 16_000],
    &[30_000, 30_000, 16_000],
    &[60_000, 5_000],
    &[50_000, 16_000, 16_000],
    &[45_000, 12_000, 12_000],
    &[20_000, 48_000],
    &[52_000, 14_000],
    &[33_000, 33_000],
    &[25_000, 25_000, 25_000],
];

#[derive(Clone, Debug, PartialEq, Eq, Hash)]
struct Scenario {
    workload: Workload,
    delay_ms: u64,
    with_timeout: bool,
    script: Vec<Fault>,
}

#[derive(Clone, Debug, PartialEq, Eq, Hash)]
struct CallResult {
    id: u32,
    /// "ok:<id*10>", "err:<code>", "no-answer"
    outcome: String,
    elapsed_ms: u64,
    padding_ok: bool,
}

#[derive(Clone, Debug, PartialEq, Eq, Hash, Default)]
struct Outcome {
    calls: Vec<CallResult>,
    handler_runs: Vec<(u32, u32)>,
    sim_error: Option<String>,
    panic: Option<String>,
}

fn addr(name: &str) -> SocketAddr {
    (lookup(name), PORT).into()
}

async fn call(client: &RpcClient<Svc>, id: u32, pad: usize) -> CallResult {
    call_with_reply(client, id, pad, 0).await
}

async fn call_with_reply(client: &RpcClient<Svc>, id: u32, pad: usize, reply_pad: usize) -> CallResult {
    call_full(client, id, pad, reply_pad, false).await
}

async fn call_full(client: &RpcClient<Svc>, id: u32, pad: usize, reply_pad: usize, owned: bool) -> CallResult {
    let padding: Vec<u8> = (0..pad).map(|i| (i % 251) as u8).collect();
    let start = tokio::time::Instant::now();
    // a harness-side cap so that a request without client timeout that never completes
    // (its segments were dropped by a partition) does not block the simulation
    let ask = Ask { id, padding, reply_pad: reply_pad as u32 };
    let res = if owned {
        tokio::time::timeout(Duration::from_secs(20), client.send_owned(ask)).await
    } else {
        tokio::time::timeout(Duration::from_secs(20), client.send(&ask)).await
    };
    finish_call(id, pad, reply_pad, start, res)
}

fn finish_call(
    id: u32,
    pad: usize,
    reply_pad: usize,
    start: tokio::time::Instant,
    res: Result<Result<datacake_rpc::MessageReply<Svc, Ask>, datacake_rpc::Status>, tokio::time::error::Elapsed>,
) -> CallResult {
    let want_sum: u64 = (0..pad).map(|i| (i % 251) as u64).sum();
    let elapsed_ms = start.elapsed().as_millis() as u64;
    let (outcome, padding_ok) = match res {
        Err(_) => ("no-answer".to_string(), true),
        Ok(Ok(view)) => {
            let a: Answer = view.deserialize_view().expect("reply decodes");
            (format!("ok:{}", a.id_times_ten), a.padding_len as usize == pad && a.padding_sum == want_sum && a.echo == echo_bytes(id, reply_pad))
        },
        Ok(Err(status)) => (format!("err:{:?}", status.code), true),
    };
    CallResult { id, outcome, elapsed_ms, padding_ok }
}

const SIMULATOR_LIMIT: &str = "SIMULATOR-LIMIT: turmoil TcpStream::poll_read cannot deliver a segment larger than the read buffer";

fn run_sim(sc: &Scenario) -> Outcome {
    let runs: Arc<Mutex<BTreeMap<u32, u32>>> = Arc::new(Mutex::new(BTreeMap::new()));
    let results: Arc<Mutex<Vec<CallResult>>> = Arc::new(Mutex::new(Vec::new()));
    let sc2 = sc.clone();
    let runs2 = runs.clone();
    let results2 = results.clone();
    let res = vkit::quiet::catch(move || {
        let mut builder = Builder::new();
        builder
            .simulation_duration(Duration::from_secs(120))
            .tick_duration(Duration::from_millis(1))
            .min_message_latency(Duration::from_millis(1))
            .max_message_latency(Duration::from_millis(1));
        let mut sim = builder.build_with_rng(Box::new(SmallRng::seed_from_u64(7)));
        let delay = Duration::from_millis(sc2.delay_ms);
        let runs_host = runs2.clone();
        sim.host("server", move || {
            let runs = runs_host.clone();
            async move {
                let server = Server::listen((IpAddr::from(Ipv4Addr::UNSPECIFIED), PORT).into()).await?;
                server.add_service(Svc { runs, delay });
                std::future::pending::<()>().await;
                Ok(())
            }
        });
        let script = sc2.script.clone();
        sim.client("controller", async move {
            for f in script {
                match f {
                    Fault::None => {},
                    Fault::Hold => turmoil::hold("client", "server"),
                    Fault::Release => turmoil::release("client", "server"),
                    Fault::Partition => turmoil::partition("client", "server"),
                    Fault::Repair => turmoil::repair("client", "server"),
                }
                tokio::time::sleep(SLOT).await;
            }
            // heal everything at the end so that whatever can still complete does
            turmoil::repair("client", "server");
            turmoil::release("client", "server");
            Ok(())
        });
        let workload = sc2.workload;
        let with_timeout = sc2.with_timeout;
        let results = results2.clone();
        sim.client("client", async move {
            // start a little into the first slot so that slot-0 faults are in place
            tokio::time::sleep(Duration::from_millis(10)).await;
            let mut client = RpcClient::<Svc>::new(Channel::connect(addr("server")));
            if with_timeout {
                client.set_timeout(TIMEOUT);
            }
            if workload == Workload::SequentialUnbounded {
                client.set_timeout(Duration::MAX);
            }
            // concurrent requests go through clones of the configured client, the way the API
            // is meant to be used ("RpcClients are cheap to create")
            match workload {
                Workload::Sequential | Workload::SequentialOwned | Workload::SequentialUnbounded => {
                    let owned = workload == Workload::SequentialOwned;
                    for id in 1..=3u32 {
                        // the original handle, then clones of it
                        let c = if id == 1 { None } else { Some(client.clone()) };
                        let r = call_full(c.as_ref().unwrap_or(&client), id, 16, 0, owned).await;
                        results.lock().unwrap().push(r);
                        tokio::time::sleep(Duration::from_millis(300)).await;
                    }
                },
                Workload::Prepared => {
                    let asks: Vec<Ask> = (1..=3u32).map(|id| Ask { id, padding: (0..16usize).map(|i| (i % 251) as u8).collect(), reply_pad: 0 }).collect();
                    let clients: Vec<RpcClient<Svc>> = (0..3).map(|_| client.clone()).collect();
                    let prepared: Vec<_> = clients.iter().zip(&asks).map(|(c, a)| c.send(a)).collect();
                    for (fut, ask) in prepared.into_iter().zip(&asks) {
                        let start = tokio::time::Instant::now();
                        let res = tokio::time::timeout(Duration::from_secs(20), fut).await;
                        results.lock().unwrap().push(finish_call(ask.id, 16, 0, start, res));
                    }
                },
                Workload::ConcurrentFresh => {
                    let mut tasks = Vec::new();
                    for id in 1..=2u32 {
                        let c = client.clone();
                        tasks.push(tokio::spawn(async move { call(&c, id, 16).await }));
                    }
                    for t in tasks {
                        let r = t.await.map_err(|e| format!("request task died: {e}"))?;
                        results.lock().unwrap().push(r);
                    }
                },
                Workload::ConcurrentWarm | Workload::ConcurrentWarmOwned => {
                    let owned = workload == Workload::ConcurrentWarmOwned;
                    let r = call_full(&client, 1, 16, 0, owned).await;
                    results.lock().unwrap().push(r);
                    tokio::time::sleep(Duration::from_millis(400)).await;
                    let mut tasks = Vec::new();
                    for id in 2..=4u32 {
                        let c = client.clone();
                        tasks.push(tokio::spawn(async move { call_full(&c, id, 16, 0, owned).await }));
                    }
                    for t in tasks {
                        let r = t.await.map_err(|e| format!("request task died: {e}"))?;
                        results.lock().unwrap().push(r);
                    }
                },
                Workload::ConcurrentWarmMixed => {
                    let r = call_full(&client, 1, 16, 0, false).await;
                    results.lock().unwrap().push(r);
                    tokio::time::sleep(Duration::from_millis(400)).await;
                    let mut tasks = Vec::new();
                    for id in 2..=4u32 {
                        let mut c = client.clone();
                        if id == 2 && with_timeout {
                            c.set_timeout(LONG_TIMEOUT);
                        }
                        tasks.push(tokio::spawn(async move { call_full(&c, id, 16, 0, false).await }));
                    }
                    for t in tasks {
                        let r = t.await.map_err(|e| format!("request task died: {e}"))?;
                        results.lock().unwrap().push(r);
                    }
                },
                Workload::Large => {
                    let r = call(&client, 1, 1 << 20).await;
                    results.lock().unwrap().push(r);
                },
                Workload::UnreadStream(v) => {
                    let r = call(&client, 1, 16).await;
                    results.lock().unwrap().push(r);
                    tokio::time::sleep(Duration::from_millis(400)).await;
                    let (len, typed) = UNREAD_STREAM_VARIANTS[v as usize];
                    let start = tokio::time::Instant::now();
                    let stream = tokio::time::timeout(Duration::from_secs(20), client.send(&Download { id: 2, len: len as u32 })).await;
                    tokio::time::sleep(Duration::from_millis(100)).await;
                    let mut tasks = Vec::new();
                    for (i, size) in typed.iter().enumerate() {
                        let c = client.clone();
                        let size = *size;
                        tasks.push(tokio::spawn(async move { call_with_reply(&c, 3 + i as u32, 16, size).await }));
                    }
                    for t in tasks {
                        let r = t.await.map_err(|e| format!("request task died: {e}"))?;
                        results.lock().unwrap().push(r);
                    }
                    // now the application reads the download
                    let (outcome, intact) = match stream {
                        Err(_) => ("no-answer".to_string(), true),
                        Ok(Err(status)) => (format!("err:{:?}", status.code), true),
                        Ok(Ok(body)) => {
                            match tokio::time::timeout(Duration::from_secs(20), hyper::body::to_bytes(body.into_inner())).await {
                                Err(_) => ("no-answer".to_string(), true),
                                // a transport failure while streaming is a connection error
                                Ok(Err(_)) => (format!("err:{:?}", ErrorCode::ConnectionError), true),
                                Ok(Ok(bytes)) => ("ok:20".to_string(), bytes.as_ref() == echo_bytes(2, len).as_slice()),
                            }
                        },
                    };
                    // the timeout bound applies to the reply head only; the body is read later
                    let _ = start;
                    results.lock().unwrap().push(CallResult { id: 2, outcome, elapsed_ms: 0, padding_ok: intact });
                },
                Workload::LargeReplies(v) => {
                    let r = call(&client, 1, 16).await;
                    results.lock().unwrap().push(r);
                    tokio::time::sleep(Duration::from_millis(400)).await;
                    let mut tasks = Vec::new();
                    for (i, size) in LARGE_REPLY_VARIANTS[v as usize].iter().enumerate() {
                        let c = client.clone();
                        let size = *size;
                        tasks.push(tokio::spawn(async move { call_with_reply(&c, 2 + i as u32, 16, size).await }));
                    }
                    for t in tasks {
                        let r = t.await.map_err(|e| format!("request task died: {e}"))?;
                        results.lock().unwrap().push(r);
                    }
                },
            }
            Ok(())
        });
        sim.run().map_err(|e| e.to_string())
    });
    let mut out = Outcome::default();
    match res {
        // turmoil 0.4's TcpStream::poll_read panics when a segment does not fit the reader's
        // buffer; whether and where it happens depends on buffer capacities (the message
        // even differs between two runs of one scenario), so it is normalised here and the
        // scenario is not judged
        Err(p) if p.contains("/turmoil-") && p.contains("src/net/tcp/stream.rs") => {
            return Outcome { panic: Some(SIMULATOR_LIMIT.to_string()), ..Outcome::default() };
        },
        Err(p) => out.panic = Some(p),
        Ok(Err(e)) => out.sim_error = Some(e),
        Ok(Ok(())) => {},
    }
    out.calls = results.lock().unwrap().clone();
    out.calls.sort_by_key(|c| c.id);
    out.handler_runs = runs.lock().unwrap().iter().map(|(k, v)| (*k, *v)).collect();
    out
}


fn outcome_json(o: &Outcome, reproducible: bool) -> J {
    J::obj()
        .set(
            "calls",
            J::Arr(
                o.calls
                    .iter()
                    .map(|c| J::obj().set("id", c.id).set("outcome", &c.outcome).set("elapsed_ms", c.elapsed_ms).set("padding_ok", c.padding_ok))
                    .collect(),
            ),
        )
        .set("handler_runs", J::Arr(o.handler_runs.iter().map(|(a, b)| J::from(vec![*a, *b])).collect()))
        .set("sim_error", o.sim_error.clone())
        .set("panic", o.panic.clone())
        .set("reproducible", reproducible)
}

fn outcome_from_json(j: &J) -> (Outcome, bool) {
    let mut o = Outcome::default();
    for c in j.get("calls").and_then(|v| v.as_arr()).unwrap_or(&[]) {
        o.calls.push(CallResult {
            id: c.get("id").and_then(|v| v.as_u64()).unwrap_or(0) as u32,
            outcome: c.get("outcome").and_then(|v| v.as_str()).unwrap_or("").to_string(),
            elapsed_ms: c.get("elapsed_ms").and_then(|v| v.as_u64()).unwrap_or(0),
            padding_ok: c.get("padding_ok").and_then(|v| v.as_bool()).unwrap_or(false),
        });
    }
    for r in j.get("handler_runs").and_then(|v| v.as_arr()).unwrap_or(&[]) {
        if let Some(a) = r.as_arr() {
            o.handler_runs.push((a[0].as_u64().unwrap_or(0) as u32, a[1].as_u64().unwrap_or(0) as u32));
        }
    }
    o.sim_error = j.get("sim_error").and_then(|v| v.as_str()).map(|s| s.to_string());
    o.panic = j.get("panic").and_then(|v| v.as_str()).map(|s| s.to_string());
    (o, j.get("reproducible").and_then(|v| v.as_bool()).unwrap_or(true))
}

fn all_scenarios(tier: Tier) -> (Vec<Scenario>, usize, usize) {
    let max_faults = tier.pick(1, 2);
    let scripts = scripts(max_faults);
    let mut scenarios = Vec::new();
    let mut workloads = vec![Workload::Sequential, Workload::ConcurrentFresh, Workload::ConcurrentWarm, Workload::Large, Workload::SequentialOwned, Workload::ConcurrentWarmOwned, Workload::ConcurrentWarmMixed, Workload::Prepared, Workload::SequentialUnbounded];
    for v in 0..LARGE_REPLY_VARIANTS.len() {
        workloads.push(Workload::LargeReplies(v as u8));
    }
    for v in 0..UNREAD_STREAM_VARIANTS.len() {
        workloads.push(Workload::UnreadStream(v as u8));
    }
    for workload in workloads {
        let big = matches!(workload, Workload::Large | Workload::LargeReplies(_) | Workload::UnreadStream(_));
        let delays: &[u64] = if big { &[0] } else if workload == Workload::Prepared { &[0, 500, 900, 3000] } else { &[0, 500, 3000] };
        for &delay_ms in delays {
            for with_timeout in [true, false] {
                if workload == Workload::ConcurrentWarmMixed && !with_timeout {
                    continue; // identical to ConcurrentWarm
                }
                if workload == Workload::SequentialUnbounded && with_timeout {
                    continue; // the workload sets its own (unbounded) timeout
                }
                for script in &scripts {
                    if big && script.iter().filter(|f| **f != Fault::None).count() > 1 {
                        continue;
                    }
                    scenarios.push(Scenario { workload, delay_ms, with_timeout, script: script.clone() });
                }
            }
        }
    }
    (scenarios, scripts.len(), max_faults)
}

/// Child process: simulate scenarios [start, end) and print one JSON line each. A panic
/// inside a simulated host can escalate to a process abort, which must not take the
/// checker down with it.
fn worker(tier: Tier, start: usize, end: usize) -> i32 {
    let (scenarios, _, _) = all_scenarios(tier);
    let repeat_every = tier.pick(1usize, 4);
    for i in start..end.min(scenarios.len()) {
        let out = run_sim(&scenarios[i]);
        let mut reproducible = true;
        if i % repeat_every == 0 {
            let again = run_sim(&scenarios[i]);
            reproducible = again == out || again.panic.as_deref() == Some(SIMULATOR_LIMIT) || out.panic.as_deref() == Some(SIMULATOR_LIMIT);
        }
        println!("{}\t{}", i, outcome_json(&out, reproducible).to_string_compact());
    }
    0
}

fn spawn_worker(tier: Tier, start: usize, end: usize) -> (bool, Vec<(usize, Outcome, bool)>) {
    let exe = std::env::current_exe().expect("current exe");
    let out = std::process::Command::new(exe)
        .arg("--worker")
        .arg(tier.name())
        .arg(start.to_string())
        .arg(end.to_string())
        .stderr(std::process::Stdio::null())
        .output()
        .expect("spawn worker");
    let mut results = Vec::new();
    for line in String::from_utf8_lossy(&out.stdout).lines() {
        if let Some((i, j)) = line.split_once('\t') {
            if let (Ok(i), Ok(j)) = (i.parse::<usize>(), vkit::json::parse(j)) {
                let (o, r) = outcome_from_json(&j);
                results.push((i, o, r));
            }
        }
    }
    (out.status.success(), results)
}

fn scenario_json(sc: &Scenario) -> J {
    J::obj()
        .set("workload", format!("{:?}", sc.workload))
        .set("handler_delay_ms", sc.delay_ms)
        .set("client_timeout", sc.with_timeout)
        .set(
            "fault_script",
            J::Arr(
                sc.script
                    .iter()
                    .enumerate()
                    .filter(|(_, f)| **f != Fault::None)
                    .map(|(i, f)| J::from(format!("t={}ms {:?}", i as u64 * 250, f)))
                    .collect(),
            ),
        )
        .set("script_slots", sc.script.iter().map(|f| format!("{f:?}")).collect::<Vec<_>>())
}

fn judge(sc: &Scenario, out: &Outcome, st: &mut Stats) {
    st.inc("runs");
    let faults = sc.script.iter().filter(|f| **f != Fault::None).count() as u64;
    let rank = faults << 16 | sc.delay_ms / 100;
    let case = || scenario_json(sc).set("observed", format!("{out:?}"));
    let shape = format!("{:?}", sc.workload);
    if let Some(p) = &out.panic {
        // turmoil 0.4's simulated TcpStream::poll_read panics when a received segment does not
        // fit the reader's buffer (`buf.put_slice` without a length check): a limitation of
        // the simulator, not a behaviour of datacake-rpc. Such scenarios are not judged.
        if p == SIMULATOR_LIMIT {
            st.inc("scenarios_not_judged_simulator_panic");
            if std::env::var("VERIF_C14_SHOW_NOT_JUDGED").is_ok() {
                eprintln!("not judged: {shape} {:?}", sc.script.iter().position(|f| *f != Fault::None));
            }
            return;
        }
        st.violation_ranked(&format!("panic/{shape}"), rank, || format!("the simulation panicked: {p}"), case);
        return;
    }
    if let Some(e) = &out.sim_error {
        st.violation_ranked(&format!("request-task-failed/{shape}"), rank, || e.clone(), case);
        return;
    }
    let expected_calls = match sc.workload {
        Workload::Sequential | Workload::SequentialOwned | Workload::Prepared | Workload::SequentialUnbounded => 3,
        Workload::ConcurrentFresh => 2,
        Workload::ConcurrentWarm | Workload::ConcurrentWarmOwned | Workload::ConcurrentWarmMixed => 4,
        Workload::Large => 1,
        Workload::LargeReplies(v) => 1 + LARGE_REPLY_VARIANTS[v as usize].len(),
        Workload::UnreadStream(v) => 2 + UNREAD_STREAM_VARIANTS[v as usize].1.len(),
    };
    if out.calls.len() != expected_calls {
        st.violation_ranked(&format!("calls-missing/{shape}"), rank, || format!("{} of {expected_calls} calls returned", out.calls.len()), case);
    }
    for c in &out.calls {
        st.inc("calls");
        let allowed = c.outcome == format!("ok:{}", c.id * 10)
            || c.outcome == format!("err:{:?}", ErrorCode::ConnectionError)
            || c.outcome == format!("err:{:?}", ErrorCode::Timeout)
            || (c.outcome == "no-answer" && !sc.with_timeout);
        if c.outcome.starts_with("ok:") {
            st.inc("calls_ok");
        } else {
            st.inc("calls_failed");
        }
        if !allowed {
            let kind = if c.outcome.starts_with("ok:") { "reply-of-another-request" } else { "unexpected-status" };
            st.violation_ranked(
                &format!("{kind}/{shape}"),
                rank,
                || format!("request {} returned {}", c.id, c.outcome),
                case,
            );
        }
        if !c.padding_ok {
            st.violation_ranked(&format!("payload-altered/{shape}"), rank, || format!("request {} payload echo mismatch", c.id), case);
        }
        let bound = if sc.workload == Workload::ConcurrentWarmMixed && c.id == 2 { LONG_TIMEOUT } else { TIMEOUT };
        if sc.with_timeout && c.elapsed_ms > bound.as_millis() as u64 + 5 {
            let kind = if c.outcome.starts_with("ok:") { "late-answer" } else { "late-error" };
            st.violation_ranked(
                &format!("timeout-bound-exceeded/{kind}/{shape}"),
                rank,
                || format!("request {} (client timeout {} s) returned {} after {} ms", c.id, bound.as_secs(), c.outcome, c.elapsed_ms),
                case,
            );
        }
    }
    for (id, n) in &out.handler_runs {
        if *n > 1 {
            st.violation_ranked(&format!("handler-ran-twice/{shape}"), rank, || format!("the handler ran {n} times for request {id}"), case);
        }
    }
    st.seen("outcomes", fp128(&(format!("{:?}", sc.workload), out.calls.iter().map(|c| c.outcome.clone()).collect::<Vec<_>>())));
}

fn scripts(max_faults: usize) -> Vec<Vec<Fault>> {
    let kinds = [Fault::Hold, Fault::Release, Fault::Partition, Fault::Repair];
    let mut out = vec![vec![Fault::None; SLOTS]];
    let mut frontier: Vec<(Vec<Fault>, usize)> = vec![(vec![Fault::None; SLOTS], 0)];
    for _ in 0..max_faults {
        let mut next = Vec::new();
        for (base, from) in &frontier {
            for slot in *from..SLOTS {
                for k in kinds {
                    let mut s = base.clone();
                    s[slot] = k;
                    out.push(s.clone());
                    next.push((s, slot + 1));
                }
            }
        }
        frontier = next;
    }
    // a release/repair with nothing held/partitioned before it is a no-op: drop duplicates of the
    // fault-free script
    out.retain(|s| {
        let mut active = false;
        let mut useful = s.iter().all(|f| *f == Fault::None);
        for f in s {
            match f {
                Fault::Hold | Fault::Partition => {
                    active = true;
                    useful = true;
                },
                Fault::Release | Fault::Repair if active => useful = true,
                _ => {},
            }
        }
        useful
    });
    out.sort_by_key(|s| format!("{s:?}"));
    out.dedup();
    out
}

fn run_check(tier: Tier) -> i32 {
    let mut report = Report::new("C14", tier, "fault_enumeration");
    let (scenarios, n_scripts, max_faults) = all_scenarios(tier);
    let chunk = 40usize;
    let starts: Vec<usize> = (0..scenarios.len()).step_by(chunk).collect();
    let parts = par::par_map(&starts, |_, &start| {
        let mut st = Stats::default();
        let end = (start + chunk).min(scenarios.len());
        let (ok, mut results) = spawn_worker(tier, start, end);
        if !ok || results.len() != end - start {
            // the worker died: isolate the scenario(s) that kill the process
            st.inc("worker_processes_that_died");
            let done: std::collections::BTreeSet<usize> = results.iter().map(|r| r.0).collect();
            for i in start..end {
                if done.contains(&i) {
                    continue;
                }
                let (ok1, mut one) = spawn_worker(tier, i, i + 1);
                if ok1 && one.len() == 1 {
                    results.append(&mut one);
                } else {
                    let o = Outcome { panic: Some("the simulation aborted the whole process (panic while panicking)".into()), ..Outcome::default() };
                    results.push((i, o, true));
                }
            }
        }
        for (i, out, reproducible) in results {
            let sc = &scenarios[i];
            st.inc("runs_repeated");
            if !reproducible {
                st.inc("runs_not_reproducible");
                eprintln!("not reproducible: {}", scenario_json(sc).to_string_compact());
            }
            judge(sc, &out, &mut st);
            if sc.script.iter().any(|f| *f != Fault::None) && out.calls.iter().any(|c| !c.outcome.starts_with("ok:")) {
                st.inc("runs_where_a_fault_hit_a_request");
            }
        }
        st
    });
    let mut total = Stats::default();
    for p in parts {
        total.merge(p);
    }
    total.sample(|| scenario_json(&scenarios[scenarios.len() / 3]));
    total.sample(|| scenario_json(&scenarios[scenarios.len() - 1]));
    let runs = total.get("runs");
    let repeated = total.get("runs_repeated");
    let unrepro = total.get("runs_not_reproducible");
    let hit = total.get("runs_where_a_fault_hit_a_request");
    let ok = total.get("calls_ok");
    let failed = total.get("calls_failed");
    let outcomes = total.distinct_count("outcomes");
    let not_judged = total.get("scenarios_not_judged_simulator_panic");
    total.flush_into(&mut report);
    report.cover("scenarios_judged", runs - not_judged);
    report.cover("scenarios_not_judged_simulator_panic", not_judged);
    report.guard(not_judged * 20 <= runs, "more than 5% of the scenarios ran into the simulator's own TcpStream panic and were not judged");
    report.cover("evaluations", runs);
    report.cover("distinct_nontrivial", outcomes);
    report.cover(
        "rule",
        "every fault script with at most max_faults events over 16 decision instants (250 ms apart) and 4 fault kinds, \
         x workloads {3 sequential, 2 concurrent on a fresh channel, 3 concurrent warm, one 1 MiB request, 9 sets of concurrent \
         large replies (45-75 KB together, against the 64 KiB HTTP/2 connection window), 5 variants of typed requests \
         issued while a 30-60 KB raw-body download on the same channel is left unread} x handler delays {0, 0.5 s, 3 s} \
         (large ones: 0) x {2 s client timeout, none}, each simulated over the real \
         hyper/h2 stack on turmoil; distinct_nontrivial = distinct (workload, per-request outcome vector)",
    );
    report.cover("fault_scripts", n_scripts);
    report.cover("max_fault_events_per_script", max_faults);
    report.cover("scenarios", scenarios.len());
    report.cover("runs_repeated_for_reproducibility", repeated);
    report.cover("exhaustive", true);
    report.guard(unrepro == 0, "a simulation did not reproduce when run twice with the same script");
    report.guard_nonzero("guard_runs_where_a_fault_hit_a_request", hit);
    report.guard_nonzero("guard_calls_ok", ok);
    report.guard_nonzero("guard_calls_failed", failed);
    report.assume("turmoil 0.4 network model: fixed 1 ms latency, 1 ms ticks, seeded RNG; hold delays segments, partition drops them (no retransmission)");
    report.assume("a request from a client WITHOUT timeout that never completes (its segments were dropped) is an allowed outcome; with a timeout the bound is 2 s + 5 ms of simulated time");
    report.finish()
}

fn replay(case: &J) -> i32 {
    let parse_fault = |s: &str| match s {
        "Hold" => Fault::Hold,
        "Release" => Fault::Release,
        "Partition" => Fault::Partition,
        "Repair" => Fault::Repair,
        _ => Fault::None,
    };
    let sc = Scenario {
        workload: match case.get("workload").and_then(|v| v.as_str()) {
            Some("ConcurrentFresh") => Workload::ConcurrentFresh,
            Some("Prepared") => Workload::Prepared,
            Some("SequentialUnbounded") => Workload::SequentialUnbounded,
            Some("SequentialOwned") => Workload::SequentialOwned,
            Some("ConcurrentWarmOwned") => Workload::ConcurrentWarmOwned,
            Some("ConcurrentWarmMixed") => Workload::ConcurrentWarmMixed,
            Some("ConcurrentWarm") => Workload::ConcurrentWarm,
            Some("Large") => Workload::Large,
            Some(w) if w.starts_with("UnreadStream(") => Workload::UnreadStream(w["UnreadStream(".len()..w.len() - 1].parse().unwrap_or(0)),
            Some(w) if w.starts_with("LargeReplies(") => Workload::LargeReplies(w["LargeReplies(".len()..w.len() - 1].parse().unwrap_or(0)),
            _ => Workload::Sequential,
        },
        delay_ms: case.get("handler_delay_ms").and_then(|v| v.as_u64()).unwrap_or(0),
        with_timeout: case.get("client_timeout").and_then(|v| v.as_bool()).unwrap_or(true),
        script: case
            .get("script_slots")
            .and_then(|v| v.as_arr())
            .unwrap_or(&[])
            .iter()
            .map(|f| parse_fault(f.as_str().unwrap_or("None")))
            .collect(),
    };
    let out = run_sim(&sc);
    let again = run_sim(&sc);
    if out != again {
        eprintln!("replay is not deterministic");
        return 2;
    }
    println!("{out:#?}");
    let mut st = Stats::default();
    judge(&sc, &out, &mut st);
    for f in &st.found {
        println!("{}: {}", f.key, f.what);
    }
    (!st.found.is_empty()) as i32
}

fn main() {
    if std::env::var("VSIM_LOUD").is_err() {
        vkit::quiet::install_hook();
    }
    let args: Vec<String> = std::env::args().skip(1).collect();
    if args.first().map(|s| s.as_str()) == Some("--replay") {
        let text = std::fs::read_to_string(&args[1]).expect("read replay file");
        let doc = vkit::json::parse(&text).expect("parse replay file");
        let code = replay(doc.get("case").unwrap_or(&J::Null));
        println!("{}", if code == 1 { "REPLAY: violation reproduced" } else { "REPLAY: no violation on this tree" });
        std::process::exit(code);
    }
    if args.first().map(|s| s.as_str()) == Some("--worker") {
        let tier = if args.get(1).map(|s| s.as_str()) == Some("thorough") { Tier::Thorough } else { Tier::Quick };
        let start: usize = args[2].parse().expect("start");
        let end: usize = args[3].parse().expect("end");
        std::process::exit(worker(tier, start, end));
    }
    let tier = match args.get(1).map(|s| s.as_str()).or(std::env::var("VERIF_TIER").ok().as_deref()) {
        Some("thorough") => Tier::Thorough,
        _ => Tier::Quick,
    };
    if args.first().map(|s| s.as_str()) != Some("C14") {
        eprintln!("usage: vsim C14 [quick|thorough] | --replay <file>");
        std::process::exit(2);
    }
    std::process::exit(run_check(tier));
}
