//! Evidence files, violation reporting and the known-findings matcher.
//!
//! Exit codes used by every checker:
//!   0  property held on everything explored (KNOWN-FINDING lines may be printed)
//!   1  at least one violation that KNOWN_FINDINGS.txt does not list
//!   2  machinery failure (vacuity guard, determinism self-check, engine panic)

use std::collections::BTreeMap;
use std::path::PathBuf;
use std::time::Instant;

use crate::json::J;

pub fn verif_root() -> PathBuf {
    std::env::var("VERIF_ROOT")
        .map(PathBuf::from)
        .unwrap_or_else(|_| PathBuf::from("/verif"))
}

#[derive(Debug, Clone, Copy, PartialEq, Eq)]
pub enum Tier {
    Quick,
    Thorough,
}

impl Tier {
    pub fn name(self) -> &'static str {
        match self {
            Tier::Quick => "quick",
            Tier::Thorough => "thorough",
        }
    }
    pub fn is_thorough(self) -> bool {
        self == Tier::Thorough
    }
    /// Picks the quick or the thorough value of a bound.
    pub fn pick<T>(self, quick: T, thorough: T) -> T {
        match self {
            Tier::Quick => quick,
            Tier::Thorough => thorough,
        }
    }
}

pub fn seed_from_env() -> u64 {
    std::env::var("VERIF_SEED")
        .ok()
        .and_then(|s| s.trim().parse::<i128>().ok())
        .map(|v| v as u64)
        .unwrap_or(0)
}

struct Violation {
    what: String,
    replay: J,
    count: u64,
}

pub struct Report {
    pub id: &'static str,
    pub tier: Tier,
    pub seed: u64,
    level: &'static str,
    start: Instant,
    coverage: J,
    assumptions: Vec<String>,
    samples: Vec<J>,
    violations: BTreeMap<String, Violation>,
    machinery_errors: Vec<String>,
}

impl Report {
    pub fn new(id: &'static str, tier: Tier, level: &'static str) -> Self {
        Self {
            id,
            tier,
            seed: seed_from_env(),
            level,
            start: Instant::now(),
            coverage: J::obj(),
            assumptions: Vec::new(),
            samples: Vec::new(),
            violations: BTreeMap::new(),
            machinery_errors: Vec::new(),
        }
    }

    pub fn elapsed_s(&self) -> f64 {
        self.start.elapsed().as_secs_f64()
    }

    /// Sets a coverage key (counts measured by this run).
    pub fn cover(&mut self, key: &str, v: impl Into<J>) {
        self.coverage.put(key, v);
    }

    /// Adds to an integer coverage key.
    pub fn cover_add(&mut self, key: &str, v: u64) {
        let cur = self.coverage.get(key).and_then(|j| j.as_u64()).unwrap_or(0);
        self.coverage.put(key, cur + v);
    }

    pub fn cover_get(&self, key: &str) -> u64 {
        self.coverage.get(key).and_then(|j| j.as_u64()).unwrap_or(0)
    }

    pub fn assume(&mut self, text: &str) {
        if !self.assumptions.iter().any(|a| a == text) {
            self.assumptions.push(text.to_string());
        }
    }

    /// Records one of the actual cases explored (kept small: at most `cap` per run).
    pub fn sample(&mut self, case: J) {
        if self.samples.len() < 8 {
            self.samples.push(case);
        }
    }

    pub fn samples_len(&self) -> usize {
        self.samples.len()
    }

    /// Records a violation. `key` is the failure-mode key: the oracle clause that failed
    /// plus the shape of the witness. The first witness per key is kept as replay case
    /// (callers enumerate simplest-first so it is also the smallest).
    pub fn violation(&mut self, key: &str, what: impl FnOnce() -> String, replay: impl FnOnce() -> J) {
        self.violation_n(key, 1, what, replay)
    }

    /// Same as [Self::violation] for `n` cases sharing the failure-mode key.
    pub fn violation_n(
        &mut self,
        key: &str,
        n: u64,
        what: impl FnOnce() -> String,
        replay: impl FnOnce() -> J,
    ) {
        // keys under "harness/" say that the harness could not do its job (a probe did not
        // complete, the impersonated service was not found, ...): machinery, not a verdict
        if key.starts_with("harness/") {
            if !self.machinery_errors.iter().any(|m| m.starts_with(key)) {
                self.machinery_errors.push(format!("{key}: {} [{}]", what(), replay().to_string_compact()));
            }
            return;
        }
        if let Some(v) = self.violations.get_mut(key) {
            v.count += n;
            return;
        }
        self.violations.insert(
            key.to_string(),
            Violation {
                what: what(),
                replay: replay(),
                count: n,
            },
        );
    }

    pub fn has_violation(&self, key: &str) -> bool {
        self.violations.contains_key(key)
    }

    pub fn violation_keys(&self) -> Vec<String> {
        self.violations.keys().cloned().collect()
    }

    /// A vacuity guard: the named counter must be non-zero, else the run is a machinery
    /// failure (exit 2), never a verdict.
    pub fn guard_nonzero(&mut self, name: &str, value: u64) {
        self.cover(name, value);
        if value == 0 {
            self.machinery_errors
                .push(format!("vacuity guard: {name} is 0"));
        }
    }

    pub fn guard(&mut self, ok: bool, what: &str) {
        if !ok {
            self.machinery_errors.push(format!("guard failed: {what}"));
        }
    }

    pub fn machinery_error(&mut self, what: String) {
        self.machinery_errors.push(what);
    }

    /// Writes the evidence file, prints KNOWN-FINDING / VIOLATION lines, returns the exit code.
    pub fn finish(mut self) -> i32 {
        let root = verif_root();
        let known = KnownFindings::load(&root);
        let wall = self.start.elapsed().as_secs_f64();

        let mut alarms = 0u64;
        let mut known_hits = Vec::new();
        let mut lines = Vec::new();
        let replay_dir = root.join("replays").join(self.id);
        for (key, v) in &self.violations {
            let _ = std::fs::create_dir_all(&replay_dir);
            let fname = format!("{}.json", sanitise(key));
            let path = replay_dir.join(fname);
            let doc = J::obj()
                .set("property", self.id)
                .set("key", key)
                .set("what", &v.what)
                .set("count_this_run", v.count)
                .set("tier", self.tier.name())
                .set("case", v.replay.clone());
            let _ = std::fs::write(&path, doc.to_string_pretty());
            if let Some(desc) = known.lookup(self.id, key) {
                known_hits.push(J::obj().set("key", key).set("count", v.count));
                lines.push(format!(
                    "KNOWN-FINDING: property={} key={} {} [{} case(s) this run; replay={}; listed: {}]",
                    self.id, key, v.what, v.count, path.display(), desc
                ));
            } else {
                alarms += 1;
                lines.push(format!("  {} ({} case(s)): {}", key, v.count, v.what));
                lines.push(format!(
                    "VIOLATION property={} replay={}",
                    self.id,
                    path.display()
                ));
            }
        }

        if self.samples.is_empty() {
            self.machinery_errors
                .push("no samples recorded".to_string());
        }

        let mut coverage = self.coverage.clone();
        coverage.put("samples", J::Arr(self.samples.clone()));
        coverage.put("known_finding_hits", J::Arr(known_hits));
        if !self.machinery_errors.is_empty() {
            coverage.put(
                "machinery_errors",
                J::Arr(self.machinery_errors.iter().map(J::from).collect()),
            );
        }
        let ev = J::obj()
            .set("property_id", self.id)
            .set("tier", self.tier.name())
            .set("seed", self.seed)
            .set("level", self.level)
            .set("coverage", coverage)
            .set(
                "assumptions",
                J::Arr(self.assumptions.iter().map(J::from).collect()),
            )
            .set("wall_s", wall)
            .set("violations", alarms);
        let ev_dir = root.join("evidence");
        let _ = std::fs::create_dir_all(&ev_dir);
        let ev_path = ev_dir.join(format!("{}.json", self.id));
        if let Err(e) = std::fs::write(&ev_path, ev.to_string_pretty()) {
            eprintln!("cannot write {}: {e}", ev_path.display());
            return 2;
        }

        for l in &lines {
            println!("{l}");
        }
        // A violation is a verdict; vacuity guards only qualify a *pass* (and a violation
        // usually starves the counters the guards look at).
        if alarms > 0 {
            for e in &self.machinery_errors {
                eprintln!("note: property={} {} (not decisive: violations were found)", self.id, e);
            }
            return 1;
        }
        if !self.machinery_errors.is_empty() {
            for e in &self.machinery_errors {
                eprintln!("MACHINERY-ERROR property={} {}", self.id, e);
            }
            return 2;
        }
        println!(
            "OK property={} tier={} wall_s={:.1} evidence={}",
            self.id,
            self.tier.name(),
            wall,
            ev_path.display()
        );
        0
    }
}

fn sanitise(key: &str) -> String {
    key.chars()
        .map(|c| if c.is_ascii_alphanumeric() || c == '-' || c == '_' || c == '.' { c } else { '_' })
        .collect()
}

/// `/verif/KNOWN_FINDINGS.txt`: committed, never written at run time.
///
/// ```text
/// known: property=C15 key=shortfall/cursor-wrap <free text>
/// fixed: property=C13 <commit> <what failed>
/// ```
/// Only `known:` lines suppress anything, and only the exact (property, key) pair.
pub struct KnownFindings {
    known: Vec<(String, String, String)>,
}

impl KnownFindings {
    pub fn load(root: &std::path::Path) -> Self {
        let mut known = Vec::new();
        if let Ok(text) = std::fs::read_to_string(root.join("KNOWN_FINDINGS.txt")) {
            for line in text.lines() {
                let line = line.trim();
                let Some(rest) = line.strip_prefix("known:") else { continue };
                let mut prop = None;
                let mut key = None;
                let mut desc = Vec::new();
                for tok in rest.split_whitespace() {
                    if let (None, Some(p)) = (&prop, tok.strip_prefix("property=")) {
                        prop = Some(p.to_string());
                    } else if let (None, Some(k)) = (&key, tok.strip_prefix("key=")) {
                        key = Some(k.to_string());
                    } else {
                        desc.push(tok);
                    }
                }
                if let (Some(p), Some(k)) = (prop, key) {
                    known.push((p, k, desc.join(" ")));
                }
            }
        }
        Self { known }
    }

    pub fn lookup(&self, prop: &str, key: &str) -> Option<&str> {
        self.known
            .iter()
            .find(|(p, k, _)| p == prop && k == key)
            .map(|(_, _, d)| d.as_str())
    }
}
