//! `catch_unwind` without the default hook's stderr noise for *expected* panics.
//! `install_hook()` is called once in main; panics outside `quiet::catch` still print.

use std::cell::Cell;
use std::panic::{catch_unwind, AssertUnwindSafe};

thread_local! {
    static QUIET: Cell<u32> = Cell::new(0);
    /// message and location of the first panic seen on this thread since the outermost
    /// `catch` began (a runtime may re-raise a task's panic under a generic message)
    static FIRST: std::cell::RefCell<Option<String>> = std::cell::RefCell::new(None);
}

pub fn install_hook() {
    let default = std::panic::take_hook();
    std::panic::set_hook(Box::new(move |info| {
        if QUIET.with(|q| q.get()) == 0 {
            default(info);
        } else {
            FIRST.with(|f| {
                let mut f = f.borrow_mut();
                if f.is_none() {
                    let msg = info
                        .payload()
                        .downcast_ref::<String>()
                        .cloned()
                        .or_else(|| info.payload().downcast_ref::<&str>().map(|s| s.to_string()))
                        .unwrap_or_default();
                    let loc = info.location().map(|l| format!("{}:{}", l.file(), l.line())).unwrap_or_default();
                    *f = Some(format!("{msg} at {loc}"));
                }
            });
        }
    }));
}

/// Runs `f`, turning a panic into `Err(message)`.
pub fn catch<R>(f: impl FnOnce() -> R) -> Result<R, String> {
    let outermost = QUIET.with(|q| q.get()) == 0;
    if outermost {
        FIRST.with(|f| *f.borrow_mut() = None);
    }
    QUIET.with(|q| q.set(q.get() + 1));
    let res = catch_unwind(AssertUnwindSafe(f));
    QUIET.with(|q| q.set(q.get() - 1));
    res.map_err(|p| {
        let msg = p
            .downcast_ref::<String>()
            .cloned()
            .or_else(|| p.downcast_ref::<&str>().map(|s| s.to_string()))
            .unwrap_or_else(|| "panic (non-string payload)".to_string());
        match FIRST.with(|f| f.borrow().clone()) {
            Some(first) if !first.starts_with(&msg) => format!("{msg} [first panic: {first}]"),
            _ => msg,
        }
    })
}

/// Marks the current thread as quiet for the lifetime of the guard (for code that
/// catches panics elsewhere, e.g. inside a tokio task).
pub struct QuietGuard;
impl QuietGuard {
    pub fn new() -> Self {
        QUIET.with(|q| q.set(q.get() + 1));
        QuietGuard
    }
}
impl Drop for QuietGuard {
    fn drop(&mut self) {
        QUIET.with(|q| q.set(q.get() - 1));
    }
}
