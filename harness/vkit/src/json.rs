//! Minimal JSON value, writer and parser (no external crates are available offline
//! beyond what /repo already locks, so this is hand-rolled and small).

use std::collections::BTreeMap;
use std::fmt::Write;

#[derive(Debug, Clone, PartialEq)]
pub enum J {
    Null,
    Bool(bool),
    Int(i128),
    Float(f64),
    Str(String),
    Arr(Vec<J>),
    Obj(Vec<(String, J)>),
}

impl J {
    pub fn obj() -> J {
        J::Obj(Vec::new())
    }

    pub fn set(mut self, k: &str, v: impl Into<J>) -> J {
        self.put(k, v);
        self
    }

    pub fn put(&mut self, k: &str, v: impl Into<J>) {
        if let J::Obj(items) = self {
            let v = v.into();
            if let Some(slot) = items.iter_mut().find(|(kk, _)| kk == k) {
                slot.1 = v;
            } else {
                items.push((k.to_string(), v));
            }
        } else {
            panic!("J::put on non-object");
        }
    }

    pub fn get(&self, k: &str) -> Option<&J> {
        match self {
            J::Obj(items) => items.iter().find(|(kk, _)| kk == k).map(|(_, v)| v),
            _ => None,
        }
    }

    pub fn as_str(&self) -> Option<&str> {
        match self {
            J::Str(s) => Some(s),
            _ => None,
        }
    }

    pub fn as_i128(&self) -> Option<i128> {
        match self {
            J::Int(i) => Some(*i),
            J::Float(f) => Some(*f as i128),
            _ => None,
        }
    }

    pub fn as_u64(&self) -> Option<u64> {
        self.as_i128().map(|v| v as u64)
    }

    pub fn as_arr(&self) -> Option<&[J]> {
        match self {
            J::Arr(a) => Some(a),
            _ => None,
        }
    }

    pub fn as_bool(&self) -> Option<bool> {
        match self {
            J::Bool(b) => Some(*b),
            _ => None,
        }
    }

    pub fn to_string_pretty(&self) -> String {
        let mut s = String::new();
        self.write(&mut s, 0, true);
        s.push('\n');
        s
    }

    pub fn to_string_compact(&self) -> String {
        let mut s = String::new();
        self.write(&mut s, 0, false);
        s
    }

    fn write(&self, out: &mut String, ind: usize, pretty: bool) {
        match self {
            J::Null => out.push_str("null"),
            J::Bool(b) => out.push_str(if *b { "true" } else { "false" }),
            J::Int(i) => {
                let _ = write!(out, "{}", i);
            },
            J::Float(f) => {
                if f.is_finite() {
                    let _ = write!(out, "{:.3}", f);
                } else {
                    out.push_str("null");
                }
            },
            J::Str(s) => write_str(out, s),
            J::Arr(a) => {
                // Arrays of scalars stay on one line.
                let scalar = a
                    .iter()
                    .all(|v| !matches!(v, J::Arr(_) | J::Obj(_)));
                out.push('[');
                for (i, v) in a.iter().enumerate() {
                    if i > 0 {
                        out.push(',');
                        if scalar || !pretty {
                            if pretty {
                                out.push(' ');
                            }
                        }
                    }
                    if pretty && !scalar {
                        out.push('\n');
                        out.push_str(&" ".repeat(ind + 1));
                    }
                    v.write(out, ind + 1, pretty);
                }
                if pretty && !scalar && !a.is_empty() {
                    out.push('\n');
                    out.push_str(&" ".repeat(ind));
                }
                out.push(']');
            },
            J::Obj(items) => {
                out.push('{');
                for (i, (k, v)) in items.iter().enumerate() {
                    if i > 0 {
                        out.push(',');
                    }
                    if pretty {
                        out.push('\n');
                        out.push_str(&" ".repeat(ind + 1));
                    }
                    write_str(out, k);
                    out.push(':');
                    if pretty {
                        out.push(' ');
                    }
                    v.write(out, ind + 1, pretty);
                }
                if pretty && !items.is_empty() {
                    out.push('\n');
                    out.push_str(&" ".repeat(ind));
                }
                out.push('}');
            },
        }
    }
}

fn write_str(out: &mut String, s: &str) {
    out.push('"');
    for c in s.chars() {
        match c {
            '"' => out.push_str("\\\""),
            '\\' => out.push_str("\\\\"),
            '\n' => out.push_str("\\n"),
            '\r' => out.push_str("\\r"),
            '\t' => out.push_str("\\t"),
            c if (c as u32) < 0x20 => {
                let _ = write!(out, "\\u{:04x}", c as u32);
            },
            c => out.push(c),
        }
    }
    out.push('"');
}

impl From<bool> for J {
    fn from(v: bool) -> J {
        J::Bool(v)
    }
}
impl From<&str> for J {
    fn from(v: &str) -> J {
        J::Str(v.to_string())
    }
}
impl From<String> for J {
    fn from(v: String) -> J {
        J::Str(v)
    }
}
impl From<&String> for J {
    fn from(v: &String) -> J {
        J::Str(v.clone())
    }
}
impl From<f64> for J {
    fn from(v: f64) -> J {
        J::Float(v)
    }
}
macro_rules! int_from {
    ($($t:ty)*) => {$(
        impl From<$t> for J { fn from(v: $t) -> J { J::Int(v as i128) } }
    )*};
}
int_from!(u8 u16 u32 u64 usize i8 i16 i32 i64 isize i128);
impl<T: Into<J>> From<Vec<T>> for J {
    fn from(v: Vec<T>) -> J {
        J::Arr(v.into_iter().map(Into::into).collect())
    }
}
impl<T: Into<J>> From<Option<T>> for J {
    fn from(v: Option<T>) -> J {
        match v {
            Some(v) => v.into(),
            None => J::Null,
        }
    }
}
impl<T: Into<J>> From<BTreeMap<String, T>> for J {
    fn from(v: BTreeMap<String, T>) -> J {
        J::Obj(v.into_iter().map(|(k, v)| (k, v.into())).collect())
    }
}

// ---------------------------------------------------------------- parser

pub fn parse(src: &str) -> Result<J, String> {
    let mut p = Parser { b: src.as_bytes(), i: 0 };
    p.ws();
    let v = p.value()?;
    p.ws();
    if p.i != p.b.len() {
        return Err(format!("trailing data at {}", p.i));
    }
    Ok(v)
}

struct Parser<'a> {
    b: &'a [u8],
    i: usize,
}

impl<'a> Parser<'a> {
    fn ws(&mut self) {
        while self.i < self.b.len() && (self.b[self.i] as char).is_ascii_whitespace() {
            self.i += 1;
        }
    }

    fn value(&mut self) -> Result<J, String> {
        self.ws();
        if self.i >= self.b.len() {
            return Err("eof".into());
        }
        match self.b[self.i] {
            b'{' => {
                self.i += 1;
                let mut items = Vec::new();
                loop {
                    self.ws();
                    if self.peek() == Some(b'}') {
                        self.i += 1;
                        break;
                    }
                    let k = match self.value()? {
                        J::Str(s) => s,
                        _ => return Err("object key".into()),
                    };
                    self.ws();
                    self.expect(b':')?;
                    let v = self.value()?;
                    items.push((k, v));
                    self.ws();
                    match self.peek() {
                        Some(b',') => self.i += 1,
                        Some(b'}') => {
                            self.i += 1;
                            break;
                        },
                        _ => return Err(format!("object at {}", self.i)),
                    }
                }
                Ok(J::Obj(items))
            },
            b'[' => {
                self.i += 1;
                let mut items = Vec::new();
                loop {
                    self.ws();
                    if self.peek() == Some(b']') {
                        self.i += 1;
                        break;
                    }
                    items.push(self.value()?);
                    self.ws();
                    match self.peek() {
                        Some(b',') => self.i += 1,
                        Some(b']') => {
                            self.i += 1;
                            break;
                        },
                        _ => return Err(format!("array at {}", self.i)),
                    }
                }
                Ok(J::Arr(items))
            },
            b'"' => {
                self.i += 1;
                let mut s = String::new();
                loop {
                    if self.i >= self.b.len() {
                        return Err("unterminated string".into());
                    }
                    let c = self.b[self.i];
                    self.i += 1;
                    match c {
                        b'"' => break,
                        b'\\' => {
                            let e = self.b.get(self.i).copied().ok_or("escape")?;
                            self.i += 1;
                            match e {
                                b'n' => s.push('\n'),
                                b't' => s.push('\t'),
                                b'r' => s.push('\r'),
                                b'b' => s.push('\u{8}'),
                                b'f' => s.push('\u{c}'),
                                b'u' => {
                                    let h = std::str::from_utf8(&self.b[self.i..self.i + 4])
                                        .map_err(|e| e.to_string())?;
                                    let cp = u32::from_str_radix(h, 16)
                                        .map_err(|e| e.to_string())?;
                                    self.i += 4;
                                    s.push(char::from_u32(cp).unwrap_or('?'));
                                },
                                other => s.push(other as char),
                            }
                        },
                        _ => {
                            // copy raw utf-8 bytes
                            let start = self.i - 1;
                            let mut end = self.i;
                            while end < self.b.len()
                                && self.b[end] != b'"'
                                && self.b[end] != b'\\'
                            {
                                end += 1;
                            }
                            s.push_str(
                                std::str::from_utf8(&self.b[start..end])
                                    .map_err(|e| e.to_string())?,
                            );
                            self.i = end;
                        },
                    }
                }
                Ok(J::Str(s))
            },
            b't' => self.lit("true", J::Bool(true)),
            b'f' => self.lit("false", J::Bool(false)),
            b'n' => self.lit("null", J::Null),
            _ => {
                let start = self.i;
                while self.i < self.b.len()
                    && matches!(self.b[self.i], b'-' | b'+' | b'.' | b'e' | b'E' | b'0'..=b'9')
                {
                    self.i += 1;
                }
                let t = std::str::from_utf8(&self.b[start..self.i]).unwrap();
                if let Ok(i) = t.parse::<i128>() {
                    Ok(J::Int(i))
                } else {
                    t.parse::<f64>()
                        .map(J::Float)
                        .map_err(|e| format!("number {t:?}: {e}"))
                }
            },
        }
    }

    fn lit(&mut self, word: &str, v: J) -> Result<J, String> {
        if self.b[self.i..].starts_with(word.as_bytes()) {
            self.i += word.len();
            Ok(v)
        } else {
            Err(format!("literal at {}", self.i))
        }
    }

    fn peek(&self) -> Option<u8> {
        self.b.get(self.i).copied()
    }

    fn expect(&mut self, c: u8) -> Result<(), String> {
        if self.peek() == Some(c) {
            self.i += 1;
            Ok(())
        } else {
            Err(format!("expected {:?} at {}", c as char, self.i))
        }
    }
}

#[cfg(test)]
mod tests {
    use super::*;

    #[test]
    fn round_trip() {
        let v = J::obj()
            .set("a", 1u32)
            .set("b", vec![J::from("x\"y\n"), J::Null, J::Bool(true)])
            .set("c", J::obj().set("d", 1.5f64));
        let s = v.to_string_pretty();
        let back = parse(&s).unwrap();
        assert_eq!(back.get("a"), Some(&J::Int(1)));
        assert_eq!(back.get("b").unwrap().as_arr().unwrap()[0].as_str(), Some("x\"y\n"));
        let s2 = v.to_string_compact();
        assert_eq!(parse(&s2).unwrap(), back);
    }
}
