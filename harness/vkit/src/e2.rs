//! E2 — a stateless schedule explorer for async tasks (CHESS style, hand-rolled).
//!
//! The *client* futures of a harness body are not spawned: `drive` polls them itself with
//! flag wakers, so at every step it knows which clients are runnable and chooses which one
//! advances to its next real suspension point (a channel / oneshot wait inside the code
//! under test, or an explicit `point().await`). Between two client steps every
//! tokio-spawned background task (actors) runs to quiescence. Schedules are enumerated
//! depth-first by re-execution from a choice prefix; a choice is an index into the
//! canonical list of runnable clients (the client that ran last first, if still runnable,
//! then ascending ids), so choice 0 everywhere is the non-preemptive default and every
//! non-zero choice is one *deviation* (a preemption, or an ordering decision at a point
//! where the last client blocked).

use std::future::Future;
use std::pin::Pin;
use std::sync::atomic::{AtomicBool, AtomicU64, AtomicUsize, Ordering};
use std::sync::{Arc, Mutex};
use std::task::{Context, Poll, Wake, Waker};
use std::time::Duration;

use crate::stats::Stats;

pub type Client<'a> = Pin<Box<dyn Future<Output = ()> + 'a>>;

struct Flag(AtomicBool);
impl Wake for Flag {
    fn wake(self: Arc<Self>) {
        self.0.store(true, Ordering::SeqCst)
    }
    fn wake_by_ref(self: &Arc<Self>) {
        self.0.store(true, Ordering::SeqCst)
    }
}

/// An explicit scheduling point: yields to the explorer once.
pub async fn point() {
    struct Once(bool);
    impl Future for Once {
        type Output = ();
        fn poll(mut self: Pin<&mut Self>, cx: &mut Context<'_>) -> Poll<()> {
            if self.0 {
                Poll::Ready(())
            } else {
                self.0 = true;
                cx.waker().wake_by_ref();
                Poll::Pending
            }
        }
    }
    Once(false).await
}

/// Lets every spawned task run until the runtime's queues are empty.
pub async fn settle() {
    let metrics = tokio::runtime::Handle::current().metrics();
    for _ in 0..1_000_000 {
        tokio::task::yield_now().await;
        if metrics.worker_local_queue_depth(0) == 0 && metrics.global_queue_depth() == 0 {
            return;
        }
    }
    panic!("e2::settle: background tasks never became quiescent");
}

#[derive(Debug, Clone, PartialEq, Eq, Default)]
pub struct Run {
    /// Number of runnable clients at each step.
    pub widths: Vec<usize>,
    /// The choice taken at each step.
    pub choices: Vec<usize>,
    /// Which client ran at each step.
    pub ran: Vec<usize>,
    /// Unfinished clients remained although nothing was runnable up to the horizon.
    pub deadlocked: bool,
    /// A choice of the prefix was out of range (the prefix does not fit this execution).
    pub prefix_misfit: bool,
}

impl Run {
    pub fn deviations(&self) -> usize {
        self.choices.iter().filter(|c| **c != 0).count()
    }
}

pub struct DriveCfg<'a> {
    /// How far virtual time may advance while waiting for a client to become runnable.
    pub horizon: Duration,
    pub time_step: Duration,
    pub max_steps: usize,
    /// Called with the step index right before a client is polled (e.g. to set the
    /// injected wall clock for whatever the step triggers).
    pub on_step: Option<&'a dyn Fn(usize)>,
    /// When set, background (tokio-spawned) tasks are not run to quiescence between
    /// client steps; instead "let every queued background task run once" becomes a
    /// schedulable pseudo-client with the highest priority (choice 0 while background work
    /// is queued), so that a deviation can slip a client step in between two rounds of
    /// background work (e.g. between two actor messages of a spawned repair task).
    pub interleave_background: bool,
}

impl Default for DriveCfg<'_> {
    fn default() -> Self {
        Self {
            horizon: Duration::from_secs(30),
            time_step: Duration::from_millis(250),
            max_steps: 10_000,
            on_step: None,
            interleave_background: false,
        }
    }
}

/// Polls `clients` to completion under `schedule` (choices beyond it default to 0).
/// Must be called inside a current-thread tokio runtime (paused time recommended).
pub async fn drive(mut clients: Vec<Option<Client<'_>>>, schedule: &[usize], cfg: &DriveCfg<'_>) -> Run {
    let k = clients.len();
    let flags: Vec<Arc<Flag>> = (0..k).map(|_| Arc::new(Flag(AtomicBool::new(true)))).collect();
    let mut run = Run::default();
    let mut last: Option<usize> = None;
    let mut waited = Duration::ZERO;
    let metrics = tokio::runtime::Handle::current().metrics();
    let background = usize::MAX;
    loop {
        if !cfg.interleave_background {
            settle().await;
        }
        let mut enabled: Vec<usize> = Vec::new();
        if cfg.interleave_background && (metrics.worker_local_queue_depth(0) > 0 || metrics.global_queue_depth() > 0) {
            enabled.push(background);
        }
        if let Some(l) = last {
            if l != background && clients[l].is_some() && flags[l].0.load(Ordering::SeqCst) {
                enabled.push(l);
            }
        }
        for i in 0..k {
            if Some(i) != last && clients[i].is_some() && flags[i].0.load(Ordering::SeqCst) {
                enabled.push(i);
            }
        }
        if enabled.is_empty() {
            if clients.iter().all(|c| c.is_none()) {
                break;
            }
            if waited >= cfg.horizon {
                run.deadlocked = true;
                break;
            }
            // Nobody is runnable: let virtual time pass (timers inside the code under test).
            tokio::time::sleep(cfg.time_step).await;
            waited += cfg.time_step;
            continue;
        }
        waited = Duration::ZERO;
        let step = run.choices.len();
        if step >= cfg.max_steps {
            run.deadlocked = true;
            break;
        }
        let mut choice = schedule.get(step).copied().unwrap_or(0);
        if choice >= enabled.len() {
            if step < schedule.len() {
                run.prefix_misfit = true;
            }
            choice = 0;
        }
        let i = enabled[choice];
        run.widths.push(enabled.len());
        run.choices.push(choice);
        run.ran.push(i);
        if let Some(f) = cfg.on_step {
            f(step);
        }
        if i == background {
            // one scheduler round: every task queued right now runs once
            tokio::task::yield_now().await;
            continue;
        }
        flags[i].0.store(false, Ordering::SeqCst);
        let waker = Waker::from(flags[i].clone());
        let mut cx = Context::from_waker(&waker);
        if let Poll::Ready(()) = clients[i].as_mut().unwrap().as_mut().poll(&mut cx) {
            clients[i] = None;
        }
        last = Some(i);
    }
    settle().await;
    run
}

pub struct ExploreCfg {
    /// `None` = unbounded (all schedules).
    pub max_deviations: Option<usize>,
    pub max_executions: u64,
    /// Every n-th execution is executed twice and must reproduce bit-identically.
    pub determinism_check_every: u64,
}

impl Default for ExploreCfg {
    fn default() -> Self {
        Self {
            max_deviations: None,
            max_executions: 5_000_000,
            determinism_check_every: 64,
        }
    }
}

#[derive(Debug, Default, Clone)]
pub struct Summary {
    pub executions: u64,
    pub max_steps: usize,
    pub max_width: usize,
    pub capped: bool,
    pub deadlocks: u64,
    pub nondeterministic: u64,
    pub prefix_misfits: u64,
}

/// Enumerates every schedule within the deviation bound, in parallel.
///
/// `run_one(prefix)` executes the body once under the prefix and returns the `Run` plus an
/// observation; `observe` folds it into per-worker statistics. The set of executions does
/// not depend on thread timing (only the order does).
pub fn explore<O: PartialEq + Send>(
    cfg: &ExploreCfg,
    run_one: impl Fn(&[usize]) -> (Run, O) + Sync,
    observe: impl Fn(&mut Stats, &Run, &O) + Sync,
) -> (Stats, Summary) {
    let stack: Mutex<Vec<Vec<usize>>> = Mutex::new(vec![vec![]]);
    let in_flight = AtomicUsize::new(0);
    let executions = AtomicU64::new(0);
    let capped = AtomicBool::new(false);
    let results: Mutex<Vec<(Stats, Summary)>> = Mutex::new(Vec::new());
    let nthreads = crate::par::threads();
    std::thread::scope(|s| {
        for _ in 0..nthreads {
            s.spawn(|| {
                let mut st = Stats::default();
                let mut sum = Summary::default();
                loop {
                    let job = {
                        let mut g = stack.lock().unwrap();
                        let j = g.pop();
                        if j.is_some() {
                            in_flight.fetch_add(1, Ordering::SeqCst);
                        }
                        j
                    };
                    let Some(prefix) = job else {
                        if in_flight.load(Ordering::SeqCst) == 0 {
                            break;
                        }
                        std::thread::yield_now();
                        continue;
                    };
                    let n = executions.fetch_add(1, Ordering::SeqCst);
                    if n >= cfg.max_executions {
                        capped.store(true, Ordering::SeqCst);
                        in_flight.fetch_sub(1, Ordering::SeqCst);
                        continue;
                    }
                    let (run, obs) = run_one(&prefix);
                    sum.executions += 1;
                    sum.max_steps = sum.max_steps.max(run.choices.len());
                    sum.max_width = sum.max_width.max(run.widths.iter().copied().max().unwrap_or(0));
                    if run.deadlocked {
                        sum.deadlocks += 1;
                    }
                    if run.prefix_misfit {
                        sum.prefix_misfits += 1;
                    }
                    if cfg.determinism_check_every > 0 && n % cfg.determinism_check_every == 0 {
                        let (run2, obs2) = run_one(&prefix);
                        if run2 != run || obs2 != obs {
                            sum.nondeterministic += 1;
                        }
                    }
                    observe(&mut st, &run, &obs);
                    // children: deviate at any step at or after the end of the prefix
                    let mut children = Vec::new();
                    let base_dev = prefix.iter().filter(|c| **c != 0).count();
                    if cfg.max_deviations.map_or(true, |b| base_dev < b) {
                        for i in prefix.len()..run.widths.len() {
                            for alt in 1..run.widths[i] {
                                let mut p = run.choices[..i].to_vec();
                                p.push(alt);
                                children.push(p);
                            }
                        }
                    }
                    if !children.is_empty() {
                        stack.lock().unwrap().extend(children);
                    }
                    in_flight.fetch_sub(1, Ordering::SeqCst);
                }
                results.lock().unwrap().push((st, sum));
            });
        }
    });
    let mut st = Stats::default();
    let mut sum = Summary::default();
    for (s, m) in results.into_inner().unwrap() {
        st.merge(s);
        sum.executions += m.executions;
        sum.max_steps = sum.max_steps.max(m.max_steps);
        sum.max_width = sum.max_width.max(m.max_width);
        sum.deadlocks += m.deadlocks;
        sum.nondeterministic += m.nondeterministic;
        sum.prefix_misfits += m.prefix_misfits;
    }
    sum.capped = capped.load(Ordering::SeqCst);
    (st, sum)
}

/// Builds a fresh paused current-thread runtime and runs `f` on it.
pub fn block_on_fresh<T>(f: impl Future<Output = T>) -> T {
    let rt = tokio::runtime::Builder::new_current_thread()
        .enable_time()
        .start_paused(true)
        .build()
        .expect("runtime");
    let out = rt.block_on(f);
    drop(rt);
    out
}

/// Like [block_on_fresh], but the scheduler returns to the driver after every single task
/// poll, so that `DriveCfg::interleave_background` steps background tasks one poll at a time.
pub fn block_on_fresh_fine<T>(f: impl Future<Output = T>) -> T {
    let rt = tokio::runtime::Builder::new_current_thread()
        .enable_time()
        .start_paused(true)
        .event_interval(1)
        .build()
        .expect("runtime");
    let out = rt.block_on(f);
    drop(rt);
    out
}
