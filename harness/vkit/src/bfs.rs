//! E1 for worlds that cannot be cloned or hashed (live actor systems): a state *is* the
//! event history that reaches it. Breadth-first, level-synchronous search; every
//! transition is executed by replaying its whole history on a fresh world; states are
//! merged by a caller-supplied fingerprint of the reached state (the caller argues why
//! merged states have the same futures). Counts never depend on thread timing: work of a
//! level runs in parallel, results are folded in input order.

use std::collections::HashSet;
use std::hash::Hash;

use crate::par::par_map;
use crate::stats::Stats;

pub struct BfsCfg {
    pub max_depth: usize,
    pub max_states: usize,
}

#[derive(Debug, Default, Clone)]
pub struct BfsSummary {
    pub states: u64,
    pub transitions: u64,
    pub depth_reached: usize,
    /// The state cap was hit, or the depth bound was reached with a non-empty frontier.
    pub frontier_left: bool,
    pub state_cap_hit: bool,
}

/// `enabled(history)` lists the events that may follow; `exec(history, stats)` replays the
/// history on a fresh world, judges its LAST step, and returns the fingerprint of the state
/// reached (or `None` if the state must not be expanded further).
pub fn bfs_replay<E, K>(
    cfg: &BfsCfg,
    enabled: impl Fn(&[E]) -> Vec<E> + Sync,
    exec: impl Fn(&[E], &mut Stats) -> Option<K> + Sync,
) -> (Stats, BfsSummary)
where
    E: Clone + Send + Sync,
    K: Hash + Eq + Send,
{
    let mut seen: HashSet<K> = HashSet::new();
    let mut total = Stats::default();
    let mut sum = BfsSummary::default();
    // the initial state
    let mut st0 = Stats::default();
    if let Some(k) = exec(&[], &mut st0) {
        seen.insert(k);
    }
    total.merge(st0);
    sum.states = 1;
    let mut frontier: Vec<Vec<E>> = vec![vec![]];
    for depth in 0..cfg.max_depth {
        let mut work: Vec<Vec<E>> = Vec::new();
        for h in &frontier {
            for e in enabled(h) {
                let mut nh = h.clone();
                nh.push(e);
                work.push(nh);
            }
        }
        if work.is_empty() {
            frontier.clear();
            break;
        }
        let results = par_map(&work, |_, h| {
            let mut st = Stats::default();
            let k = exec(h, &mut st);
            (k, st)
        });
        let mut next = Vec::new();
        for (h, (k, st)) in work.into_iter().zip(results) {
            total.merge(st);
            sum.transitions += 1;
            if let Some(k) = k {
                if !seen.contains(&k) {
                    if seen.len() >= cfg.max_states {
                        sum.state_cap_hit = true;
                        continue;
                    }
                    seen.insert(k);
                    sum.states += 1;
                    next.push(h);
                }
            }
        }
        sum.depth_reached = depth + 1;
        frontier = next;
        if frontier.is_empty() {
            break;
        }
    }
    sum.frontier_left = !frontier.is_empty() || sum.state_cap_hit;
    (total, sum)
}
