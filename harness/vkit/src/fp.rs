//! 128-bit fingerprints for counting distinct states without keeping them in memory.
//! `DefaultHasher::new()` uses fixed keys, so fingerprints are stable across runs.

use std::collections::hash_map::DefaultHasher;
use std::hash::{Hash, Hasher};

pub fn fp128<T: Hash + ?Sized>(v: &T) -> u128 {
    let mut a = DefaultHasher::new();
    v.hash(&mut a);
    let mut b = DefaultHasher::new();
    0x9e37_79b9_7f4a_7c15u64.hash(&mut b);
    v.hash(&mut b);
    ((a.finish() as u128) << 64) | b.finish() as u128
}
