//! Per-worker statistics that merge deterministically.

use std::collections::{BTreeMap, HashSet};

use crate::json::J;
use crate::report::Report;

pub struct Found {
    pub key: String,
    pub what: String,
    pub replay: J,
    /// Lower ranks are preferred as witnesses (e.g. fewer deviations, shorter schedule).
    pub rank: u64,
}

#[derive(Default)]
pub struct Stats {
    pub counters: BTreeMap<&'static str, u64>,
    pub distinct: BTreeMap<&'static str, HashSet<u128>>,
    pub found: Vec<Found>,
    pub found_counts: BTreeMap<String, u64>,
    pub samples: Vec<J>,
}

impl Stats {
    pub fn inc(&mut self, name: &'static str) {
        *self.counters.entry(name).or_insert(0) += 1;
    }
    pub fn add(&mut self, name: &'static str, n: u64) {
        *self.counters.entry(name).or_insert(0) += n;
    }
    pub fn get(&self, name: &'static str) -> u64 {
        self.counters.get(name).copied().unwrap_or(0)
    }
    pub fn seen(&mut self, class: &'static str, fp: u128) -> bool {
        self.distinct.entry(class).or_default().insert(fp)
    }
    pub fn distinct_count(&self, class: &'static str) -> u64 {
        self.distinct.get(class).map(|s| s.len() as u64).unwrap_or(0)
    }
    /// Records a violation; only the first witness per key builds its description.
    pub fn violation(
        &mut self,
        key: &str,
        what: impl FnOnce() -> String,
        replay: impl FnOnce() -> J,
    ) {
        let c = self.found_counts.entry(key.to_string()).or_insert(0);
        *c += 1;
        if *c == 1 {
            self.found.push(Found {
                key: key.to_string(),
                what: what(),
                replay: replay(),
                rank: u64::MAX,
            });
        }
    }
    /// Like [Self::violation], but keeps the witness with the lowest `rank` per key, so
    /// the reported counterexample is minimal and independent of exploration order.
    pub fn violation_ranked(
        &mut self,
        key: &str,
        rank: u64,
        what: impl FnOnce() -> String,
        replay: impl FnOnce() -> J,
    ) {
        *self.found_counts.entry(key.to_string()).or_insert(0) += 1;
        match self.found.iter_mut().find(|f| f.key == key) {
            Some(f) if f.rank <= rank => {},
            Some(f) => {
                f.what = what();
                f.replay = replay();
                f.rank = rank;
            },
            None => self.found.push(Found {
                key: key.to_string(),
                what: what(),
                replay: replay(),
                rank,
            }),
        }
    }
    pub fn sample(&mut self, f: impl FnOnce() -> J) {
        if self.samples.len() < 3 {
            self.samples.push(f());
        }
    }
    pub fn merge(&mut self, other: Stats) {
        for (k, v) in other.counters {
            *self.counters.entry(k).or_insert(0) += v;
        }
        for (k, v) in other.distinct {
            self.distinct.entry(k).or_default().extend(v);
        }
        for f in other.found {
            match self.found.iter_mut().find(|g| g.key == f.key) {
                Some(g) if g.rank <= f.rank => {},
                Some(g) => *g = f,
                None => self.found.push(f),
            }
        }
        for (k, v) in other.found_counts {
            *self.found_counts.entry(k).or_insert(0) += v;
        }
        for s in other.samples {
            if self.samples.len() < 6 {
                self.samples.push(s);
            }
        }
    }
    /// Serialises everything but the `distinct` sets (callers that need those across
    /// processes do not exist yet; a non-empty set is a programming error here).
    pub fn to_json(&self) -> J {
        assert!(self.distinct.values().all(|s| s.is_empty()), "Stats::to_json: distinct sets are not carried");
        J::obj()
            .set("counters", J::Obj(self.counters.iter().map(|(k, v)| (k.to_string(), J::Int(*v as i128))).collect()))
            .set(
                "found",
                J::Arr(
                    self.found
                        .iter()
                        .map(|f| {
                            J::obj()
                                .set("key", f.key.as_str())
                                .set("what", f.what.as_str())
                                .set("replay", f.replay.clone())
                                .set("rank", J::Int(f.rank as i128))
                        })
                        .collect(),
                ),
            )
            .set("found_counts", J::Obj(self.found_counts.iter().map(|(k, v)| (k.clone(), J::Int(*v as i128))).collect()))
            .set("samples", J::Arr(self.samples.clone()))
    }

    /// Inverse of [Self::to_json]; counter names are leaked (a handful per process).
    pub fn from_json(j: &J) -> Option<Stats> {
        let mut st = Stats::default();
        if let Some(J::Obj(items)) = j.get("counters") {
            for (k, v) in items {
                let name: &'static str = Box::leak(k.clone().into_boxed_str());
                st.counters.insert(name, v.as_u64()?);
            }
        }
        for f in j.get("found")?.as_arr()? {
            st.found.push(Found {
                key: f.get("key")?.as_str()?.to_string(),
                what: f.get("what")?.as_str()?.to_string(),
                replay: f.get("replay")?.clone(),
                rank: f.get("rank")?.as_i128()? as u64,
            });
        }
        if let Some(J::Obj(items)) = j.get("found_counts") {
            for (k, v) in items {
                st.found_counts.insert(k.clone(), v.as_u64()?);
            }
        }
        st.samples = j.get("samples")?.as_arr()?.to_vec();
        Some(st)
    }

    /// Pushes violations, counters and samples into the report.
    pub fn flush_into(self, report: &mut Report) {
        for (k, v) in &self.counters {
            report.cover_add(k, *v);
        }
        for (k, v) in &self.distinct {
            report.cover(&format!("distinct_{k}"), v.len() as u64);
        }
        for s in self.samples {
            report.sample(s);
        }
        for f in self.found {
            let n = self.found_counts.get(&f.key).copied().unwrap_or(1);
            let (what, replay) = (f.what, f.replay);
            report.violation_n(&f.key, n, || what, || replay);
        }
    }
}
