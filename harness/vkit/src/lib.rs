pub mod bfs;
pub mod e2;
pub mod fp;
pub mod json;
pub mod par;
pub mod quiet;
pub mod report;
pub mod stats;

pub use fp::fp128;
pub use json::J;
pub use report::{Report, Tier};
pub use stats::Stats;
