pub mod bfs;
pub mod e2;
pub mod fp;
pub mod json;
pub mod par;
pub mod quiet;
pub mod report;
pub mod stats;

pub use fp::fp128;
pub use json::J;
pub use report::{Report, Tier};
pub use stats::Stats;

/// Directory for scratch databases: /dev/shm when it is writable (file-backed SQLite and
/// LMDB are much faster there), otherwise the system's temporary directory. Decided once.
pub fn scratch_base() -> std::path::PathBuf {
    static BASE: std::sync::OnceLock<std::path::PathBuf> = std::sync::OnceLock::new();
    BASE.get_or_init(|| {
        let shm = std::path::Path::new("/dev/shm");
        let probe = shm.join(format!("verif-probe-{}", std::process::id()));
        if shm.is_dir() && std::fs::create_dir(&probe).is_ok() {
            let _ = std::fs::remove_dir(&probe);
            shm.to_path_buf()
        } else {
            std::env::temp_dir()
        }
    })
    .clone()
}
