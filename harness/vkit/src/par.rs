//! Deterministic data-parallel helpers: results are always combined in input order, so
//! counts and the first witness never depend on thread timing.

use std::sync::atomic::{AtomicUsize, Ordering};
use std::sync::Mutex;

pub fn threads() -> usize {
    std::env::var("VERIF_THREADS")
        .ok()
        .and_then(|s| s.parse().ok())
        .unwrap_or_else(|| {
            std::thread::available_parallelism()
                .map(|n| n.get())
                .unwrap_or(4)
        })
        .max(1)
}

/// Applies `f` to every item on a pool of threads and returns the results in input order.
pub fn par_map<T: Sync, R: Send>(items: &[T], f: impl Fn(usize, &T) -> R + Sync) -> Vec<R> {
    par_map_capped(items, usize::MAX, f)
}

/// Like `par_map` with at most `cap` workers. For work that itself creates OS threads
/// (the SQLite and LMDB backends answer from a worker thread each): creating and waking
/// threads contends on the process's address-space lock, and on the virtual machines this
/// runs on a handful of workers gets through such work faster than one per core.
pub fn par_map_capped<T: Sync, R: Send>(items: &[T], cap: usize, f: impl Fn(usize, &T) -> R + Sync) -> Vec<R> {
    let n = items.len();
    let next = AtomicUsize::new(0);
    let slots: Vec<Mutex<Option<R>>> = (0..n).map(|_| Mutex::new(None)).collect();
    let nthreads = threads().min(cap.max(1)).min(n.max(1));
    std::thread::scope(|s| {
        for _ in 0..nthreads {
            s.spawn(|| loop {
                let i = next.fetch_add(1, Ordering::Relaxed);
                if i >= n {
                    break;
                }
                let r = f(i, &items[i]);
                *slots[i].lock().unwrap() = Some(r);
            });
        }
    });
    slots
        .into_iter()
        .map(|m| m.into_inner().unwrap().expect("worker panicked"))
        .collect()
}
