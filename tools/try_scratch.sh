#!/bin/sh
# usage: tools/try_scratch.sh <patch file> <tier> <Cxx> [<Cxx> ...]
# Like try_mutant.sh, but never touches /repo or /verif's build output: the patch is applied
# to a scratch worktree (/tmp/m2/repo) and the checks run from a copy of /verif (/tmp/m2/verif,
# refreshed from /verif's sources on every call, build output kept between calls).
# Safe to use while other runs rebuild from /repo. Remove with: tools/try_scratch.sh --clean
M=/tmp/m2
if [ "$1" = "--clean" ]; then git -C /repo worktree remove --force $M/repo 2>/dev/null; rm -rf $M; exit 0; fi
patch=$(realpath "$1"); tier=$2; shift 2
mkdir -p $M
if [ ! -d $M/repo ]; then git -C /repo worktree add -q --detach $M/repo HEAD || exit 2; fi
git -C $M/repo checkout -q --detach $(git -C /repo rev-parse HEAD) 2>/dev/null
git -C $M/repo checkout -q -- . ; git -C $M/repo clean -fdq
first=0; [ -d $M/verif/.target ] || first=1
rsync -a --delete --exclude .target --exclude .git --exclude evidence --exclude replays /verif/ $M/verif/
mkdir -p $M/verif/evidence $M/verif/replays
if [ $first = 1 ]; then rsync -a /verif/.target/ $M/verif/.target/; fi
sed -i "s|/repo/|$M/repo/|g" $M/verif/harness/vcheck/Cargo.toml $M/verif/harness/vsim/Cargo.toml
sed -i "s|target-dir = \"/verif/.target\"|target-dir = \"$M/verif/.target\"|" $M/verif/harness/.cargo/config.toml
git -C $M/repo apply "$patch" || { echo "patch does not apply" >&2; exit 2; }
cd $M/verif || exit 2
for id in "$@"; do
  ./check "$id" "$tier" > "$M/out_$id.txt" 2>&1; code=$?
  echo "== $id exit=$code"; grep -E "VIOLATION|MACHINERY|^OK|^  " "$M/out_$id.txt" | grep -v KNOWN | cut -c1-330 | head -8
done
git -C $M/repo checkout -q -- . ; git -C $M/repo clean -fdq
