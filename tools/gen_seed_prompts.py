#!/usr/bin/env python3
"""usage: tools/gen_seed_prompts.py <wave dir, e.g. /tmp/s15> [Cxx ...]
Writes one prompt per property for a wave of independently seeded changes: the property's
text from properties.jsonl, the rules (scratch worktree <wave dir>/<Cxx>/wt, nothing from
/verif, deliverables in <wave dir>/<Cxx>/out), and the list of mechanisms already collected
(taken from the section-5 table of DESIGN.md) so that the new change goes somewhere else.
Then: git -C /repo worktree add --detach <wave dir>/<Cxx>/wt HEAD, copy tools/baseline_off.py
to <wave dir>/baseline.py, and start one sub-agent per prompt ("Read <wave dir>/<Cxx>.prompt
and carry out the task it describes exactly")."""
import json, os, re, sys
ROOT = os.path.dirname(os.path.dirname(os.path.abspath(__file__)))
wave = sys.argv[1].rstrip("/")
only = sys.argv[2:]
props = {json.loads(l)["id"]: json.loads(l) for l in open(os.path.join(ROOT, "properties.jsonl"))}
tried = {}
for line in open(os.path.join(ROOT, "DESIGN.md")):
    m = re.match(r"\| \(?(C\d\d)-([a-z])(?: \(.*?\))? (.*?) \| (.*?) \|", line)
    if m:
        tried.setdefault(m.group(1), []).append(f"- {m.group(3).strip()} (needs: {m.group(4).strip()})")
os.makedirs(wave, exist_ok=True)
for pid, p in props.items():
    if only and pid not in only:
        continue
    d = f"{wave}/{pid}"
    text = f"""You are helping to evaluate a verification effort for the Rust project lnx-search/datacake (a toolkit for leaderless, eventually consistent replicated stores: HLC-timestamped ORSWOT CRDT in datacake-crdt, membership/clock/replica selection in datacake-node, rkyv RPC in datacake-rpc, the replicated store in datacake-eventual-consistency, storage backends datacake-sqlite / datacake-lmdb and the in-memory MemStore in datacake-eventual-consistency/src/test_utils.rs).

You have your own scratch git worktree of the repository at {d}/wt . Work ONLY inside {d}/ . Do not read or touch /repo or /verif (nothing there is for you). There is no network: always pass --offline to cargo (CARGO_NET_OFFLINE=true); no new crates can be fetched. Use the worktree's default target directory (wt/target). NEVER use `git stash` (it is shared between the worktrees of other agents): save diffs to files and use `git apply` / `git apply -R`.

The project is supposed to satisfy this semantic property ({pid}):

  TITLE: {p['title']}
  STATEMENT: {p['statement']}
  QUANTIFIED OVER: {p['quantifier']['text']}
  CODE IT IS ANCHORED IN: {', '.join(p['anchors']['files'])}

YOUR TASK: write ONE realistic change to the production code of the repository (not to its tests) that BREAKS this property, while
  (1) the workspace still compiles,
  (2) the repository's existing test suite still passes with the change: `python3 {wave}/baseline.py {d}/wt` must print "passed now: 69" and exit 0 (some socket-based tests fail in this sandbox with or without your change; the script ignores those),
  (3) the change looks like something a maintainer could plausibly write and a reviewer could plausibly let through (an optimisation, a refactor, a "simplification", an off-by-one, a reordered pair of statements, a cache, a fast path, two sites that each look fine alone) - not obvious sabotage, not behind a feature flag or cfg - and it is a real behavioural break of the property as stated (not merely a slowdown, not something outside the property's stated preconditions),
  (4) IMPORTANT: it needs something specific to manifest - a particular interleaving of tasks, a fault (lost message, storage error, crash/restart) at a particular point, a multi-step sequence of operations, an unusual but legal input, or two cooperating sites - so that ordinary use and the existing tests do not expose it at once.

Then write a DEMONSTRATION: a new test (or small program) that FAILS with your change and PASSES without it, deterministic, not depending on real TCP sockets (drive the components in-process, or use the `simulation` feature with turmoil as simulation-tests does).

Changes already collected for this property by earlier rounds - choose a DIFFERENT mechanism and, where you can, a different code site or a different clause of the property:
{chr(10).join(tried.get(pid, []))}

Deliverables, all under {d}/out/ :
  - patch.diff : `git diff` of the production-code change only (applies with `git apply` on the worktree's HEAD)
  - demo.diff  : `git diff` of the demonstration only (must apply on HEAD both with and without patch.diff)
  - demo_cmd.txt : the single shell command (run from the worktree root) that runs the demonstration
  - notes.md : what the change is, which clause of the property it breaks, exactly what is needed for it to manifest, and why the existing tests do not notice.
Before you finish, verify yourself: demo fails with patch, passes without; baseline script exits 0 with the patch. Leave the worktree clean (git checkout -- . && git clean -fd, keeping target/). Report in your final message: one paragraph on the change, and the demo command.
"""
    open(f"{wave}/{pid}.prompt", "w").write(text)
    print("wrote", f"{wave}/{pid}.prompt", "already collected:", len(tried.get(pid, [])))
