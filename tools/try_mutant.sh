#!/bin/sh
# usage: tools/try_mutant.sh <patch file> <tier> <Cxx> [<Cxx> ...]
# Applies a property-breaking patch to /repo's working tree, runs the named checks, and
# always restores the working tree afterwards. Evidence files written meanwhile are restored too.
patch=$(realpath "$1"); tier=$2; shift 2
cd /verif || exit 2
if ! git -C /repo diff --quiet; then echo "/repo working tree is dirty" >&2; exit 2; fi
git -C /repo apply "$patch" || { echo "patch does not apply" >&2; exit 2; }
mkdir -p .target/evidence_keep && cp evidence/*.json .target/evidence_keep/ 2>/dev/null
for id in "$@"; do
  ./check "$id" "$tier" > ".target/mutant_$id.out" 2>&1; code=$?
  echo "== $id exit=$code"; grep -E "VIOLATION|KNOWN-FINDING|MACHINERY|^OK|^  " ".target/mutant_$id.out" | cut -c1-400 | head -12
done
git -C /repo checkout -- . ; git -C /repo clean -fdq
cp .target/evidence_keep/*.json evidence/ 2>/dev/null
git -C /verif checkout -q -- replays 2>/dev/null; git -C /verif clean -fdq replays
git -C /repo status --short | head -3
