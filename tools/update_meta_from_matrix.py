#!/usr/bin/env python3
"""Fills seeded/<id>/meta.json:detected_by from seeded/MATRIX.tsv (written by tools/seed_matrix.sh)."""
import json, os, re, collections
ROOT = os.path.dirname(os.path.dirname(os.path.abspath(__file__)))
hits = collections.defaultdict(list)
for line in open(os.path.join(ROOT, "seeded", "MATRIX.tsv")).read().splitlines()[1:]:
    parts = line.split("\t")
    if len(parts) < 3:
        continue
    patch, check, result = parts
    m = re.match(r"seeded/([^/]+)/", patch)
    if not m:
        continue
    sid = m.group(1)
    em = re.match(r"exit=(\d+)\s*(.*)", result)
    if em and em.group(1) == "1":
        keys = [k for k in em.group(2).split(",") if k]
        hits[sid].append({"check": check, "failure_modes": keys})
    else:
        hits[sid] += []
for sid, h in hits.items():
    p = os.path.join(ROOT, "seeded", sid, "meta.json")
    if not os.path.exists(p):
        continue
    meta = json.load(open(p))
    meta["detected_by"] = h
    json.dump(meta, open(p, "w"), indent=1)
    print(sid, [x["check"] for x in h])
