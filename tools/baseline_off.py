#!/usr/bin/env python3
"""Runs the repository's own suite with the verification guard OFF and compares the
result with the 69 stable tests of /root/.vp/BASELINE.json.

usage: baseline_off.py [repo_dir]    (default /repo)
exit 0 iff every stable test passed.
"""
import json, os, re, subprocess, sys

repo = sys.argv[1] if len(sys.argv) > 1 else "/repo"
env = dict(os.environ)
env["CARGO_NET_OFFLINE"] = "true"
env.pop("RUSTFLAGS", None)  # guard off: /repo/.cargo/config.toml only sets tokio_unstable
p = subprocess.run(
    ["cargo", "test", "--workspace", "--no-fail-fast", "--offline"],
    cwd=repo, env=env, stdout=subprocess.PIPE, stderr=subprocess.STDOUT, text=True,
)
out = p.stdout
passed = set()
crate = binary = None
is_bin = False
for line in out.splitlines():
    m = re.search(r"Running (unittests )?(\S+) \((?:\S*/)?deps/([A-Za-z0-9_]+)-[0-9a-f]+\)", line)
    if m:
        unit, path, binname = m.group(1), m.group(2), m.group(3)
        if unit:
            crate, binary = binname.replace("_", "-"), None
            is_bin = path.endswith("main.rs")
        else:
            # integration tests follow their crate's unit tests in cargo's output
            binary = os.path.splitext(os.path.basename(path))[0]
        continue
    m = re.match(r"test (\S+) \.\.\. ok", line)
    if m and crate:
        name = m.group(1)
        if binary:
            passed.add(f"{crate}::{binary}::{name}")
        elif is_bin:
            passed.add(f"{crate}::bin/{crate}::{name}")
        else:
            passed.add(f"{crate}::{name}")

base = json.load(open("/root/.vp/BASELINE.json"))
stable = base["stable_pass"]
missing = [t for t in stable if t not in passed]
print(f"stable baseline tests: {len(stable)}; passed now: {len(stable) - len(missing)}; other passes: {len(passed - set(stable))}")
for t in missing:
    print("MISSING", t)
if missing and "-v" in sys.argv:
    print(out[-5000:])
sys.exit(1 if missing else 0)
