#!/usr/bin/env python3
"""usage: tools/merge_matrix.py <extra.tsv>
Merges the rows of a partial matrix run (tools/seed_matrix.sh with MATRIX_OUT=<extra.tsv>)
into seeded/MATRIX.tsv: a row replaces the row with the same (patch, check)."""
import os, sys
ROOT = os.path.dirname(os.path.dirname(os.path.abspath(__file__)))
main = os.path.join(ROOT, "seeded", "MATRIX.tsv")
def norm(p):
    return p.replace("/verif/", "").replace("//", "/")
rows = [l.rstrip("\n").split("\t") for l in open(main)]
head, rows = rows[0], rows[1:]
idx = {(norm(r[0]), r[1]): i for i, r in enumerate(rows) if len(r) >= 3}
n_new = n_rep = 0
for l in open(sys.argv[1]).read().splitlines()[1:]:
    r = l.split("\t")
    if len(r) < 3:
        continue
    k = (norm(r[0]), r[1])
    if k in idx:
        rows[idx[k]] = r
        n_rep += 1
    else:
        idx[k] = len(rows)
        rows.append(r)
        n_new += 1
with open(main, "w") as f:
    f.write("\t".join(head) + "\n")
    for r in rows:
        f.write("\t".join(r) + "\n")
print(f"replaced {n_rep}, added {n_new}")
