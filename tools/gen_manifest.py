#!/usr/bin/env python3
"""Generates /verif/MANIFEST.json from the table below (single source of truth)."""
import json, os

ROOT = os.path.dirname(os.path.dirname(os.path.abspath(__file__)))

ALL = ["C%02d" % i for i in range(1, 20)]

# id -> dict(category, technique, text, note, engine, design)
CHECKS = {
    "C11": dict(
        category="model_checking",
        engine="E2 + H1",
        technique="stateless schedule exploration (hand-rolled, CHESS style): all await-point interleavings of k client tasks against the real Clock actor, re-execution from choice prefixes, deviation-bounded for k=3",
        text="k=2 client tasks with 2-4 calls each (get_time / register_ts of stamps in the same tick, 1 s ahead, near the drift limit, beyond it, with the clock's own node id, with counters in the actor's back-pressure region), plus a saturated clock (one task with 1000 requests in flight, the capacity of the actor's queue, racing with register_ts + get_time) and cancelled get_time requests (future dropped after being queued) are explored over ALL interleavings of their await points; k=3 up to 2 (quick) / 6 (thorough) deviations, in fine-grained mode (one poll of one task - a caller or the clock actor - per step, runtime event_interval 1); three injected wall-clock behaviours (stalled, ticking, jumping backwards). Every execution is checked: stamps pairwise distinct, strictly increasing per task, every get_time invoked after a register_ts returned exceeds the registered stamp unless it was beyond the drift limit. Every 97th execution is run twice and must reproduce.",
        note="Current-thread runtime, await-point granularity. Multi-threaded runtimes are argued equivalent to some FIFO enqueue order into the actor's channel (DESIGN.md), not explored.",
        design="DESIGN.md section 3, C11",
    ),
    "C16": dict(
        category="model_checking",
        engine="E1/E2 + H4",
        technique="exhaustive enumeration of event schedules (snapshot pushes, watcher runs, subscription point, read placements) around the real watch_membership_changes task, with a subscriber built exactly like DatacakeNode::membership_changes()",
        text="All snapshot sequences up to length 4 (quick) / 5 (thorough) over 7 snapshots (peers 1 and 2, each absent or at one of two addresses which they can hand over to each other: joins, leaves, address changes, rejoin, replacement on the same address, takeover of a departed node's address), every burst pattern, every subscription point, every subset of read positions. Oracle at quiescence: the subscriber's map (left applied before joined) equals the live peers with addresses; every departure appears in some `left` with the address the node had; a prompt subscriber never diverges. The lost-delta defect for late/slow subscribers is a recorded known finding (7 failure-mode keys); every other failure mode is reported as a violation. Second block (services): the store's own watch_membership_changes task, the distributor's and the poller's membership bookkeeping and the poller's real replication_cycle loop (hook H8) run on node 0 behind the real watcher; every snapshot sequence up to length 3 (quick) / 4 (thorough) x settled/bursty pushes x every subset of probe positions; at each probe a batched write, a level-All write, one batching round and one repair interval must reach, and pull from, exactly the addresses of live peers, and no request may go to an address without one.",
        note="Membership enters as explicit snapshots on the channel chitchat would publish to; the gossip layer itself is not explored.",
        design="DESIGN.md section 3, C16",
    ),
    "C12": dict(
        category="exploration",
        engine="E4 + H3",
        technique="bounded exhaustive input enumeration: all single-bit flips / truncations / extensions of every family frame against the real DataView::using with an independent bitwise CRC-32 reference, plus round trips through the real client/handler over the in-process transport",
        text="Every value of a message family (fixed, text/bytes/option, nested, four tiny types with alignment 1-2 and sizes not divisible by 4; payload sizes from a boundary grid up to 64 KiB, 1 MiB in thorough) is sent through the real RpcClient -> handle_connection -> handler and back and compared on both sides; every ErrorCode x message text comes back unchanged; for every frame up to 400 (quick) / 9000 (thorough) bytes ALL single-bit flips, ALL truncations, 12 extensions, every CRC-valid body shorter than the archived root, and for frames above one 16 KiB block (up to 40 KB quick / 140 KB thorough) every bit of the first 8 and last 128 bytes plus a stride through the middle are judged by DataView::using exactly as the reference predicate demands, and the same hostile frames handed to a typed handler are refused as InvalidPayload without the handler running or anything panicking. A further family carries shared pointers (Arc<String>, the same allocation twice inside one message and again in later messages on the same thread).",
        note="In-process transport: hyper/h2 chunking bypassed (single-chunk bodies). Debug assertions on, so an out-of-range root position is a panic, not UB.",
        design="DESIGN.md section 3, C12",
    ),
    "C13": dict(
        category="model_checking",
        engine="E1 + H3",
        technique="exhaustive enumeration of all add/remove sequences (no state merging) on a real Server, probing every (service, message) pair through real clients after every event, against a set-of-names reference model",
        text="All 9^5 (quick) / 9^7 (thorough) sequences over {add, remove} on five services (two sharing a message type, one with two message types, two registered under one shared service name), including re-adding and removing absent services; after every event six probes through real RpcClients must be served by exactly the right handler iff the reference says registered, else refused as ServiceUnavailable. A sixth service is generic and keeps the trait's default name (the type name, containing '<', '>' and '::').",
        note="Dispatch through the in-process transport (URI construction, handler lookup, status encoding are production code).",
        design="DESIGN.md section 3, C13",
    ),
    "C14": dict(
        category="fault_enumeration",
        engine="E3 (turmoil, separate binary vsim)",
        technique="exhaustive enumeration of fault scripts (hold/release/partition/repair at 16 decision instants, <=1 event quick / <=2 thorough) over the real hyper/h2 client and server on turmoil's simulated network with fixed latency and seeded RNG; every run repeated for reproducibility; workers in child processes",
        text="Workloads: three sequential requests; two concurrent first requests on a fresh channel; three concurrent requests on a warmed-up connection; one 1 MiB request (multi-chunk bodies); 9 sets of concurrent large replies (45-75 KB together, against the 64 KiB HTTP/2 connection window); 9 variants of typed requests issued while a 20-55 KB raw-body download on the same channel is left unread (replies then start with a short frame and continue after the window update); the sequential and warm-concurrent workloads once more through send_owned; the warm-concurrent workload once more with one of the three clients of the channel configured with a 15 s timeout. Handler delays 0 / 0.5 s / 3 s, client timeout 2 s or none. For every script and combination each request must return Ok(id*10) for its own id with its payload echo intact, or a ConnectionError/Timeout status, nothing else and no panic; the handler runs at most once per id; with a timeout configured the call returns within 2 s (+5 ms) of simulated time. A simulation that aborts the process is isolated in a child process and reported as a violation. A further workload prepares three calls first (send returns a lazy future) and awaits them one after the other, with handler delays {0, 0.5, 0.9, 3 s}: each call's timeout is its own. A further workload runs the sequential requests with the client timeout set to Duration::MAX.",
        note="turmoil 0.4 model: hold delays, partition drops without retransmission. A request without client timeout that never completes is an allowed outcome. turmoil 0.4's own TcpStream::poll_read panics when a segment does not fit the reader's buffer; scenarios that hit it are counted (<=5% by a guard) and not judged.",
        design="DESIGN.md section 3, C14",
    ),
    "C15": dict(
        category="model_checking",
        engine="E1 + H4",
        technique="explicit-state BFS to closure over selector cursor states per layout (all levels x all scripted RNG outcomes) on the real DCAwareSelector, plus exhaustive layout-pair sequences on the real selector actor",
        text="For every layout up to 3x3 (quick) / 4x5 (thorough) data centres x nodes and every local node position the cursor-state graph is explored to closure (no length bound): every level, every outcome of every random draw; each result is judged: only live members, never the local node, no duplicates, enough (exactly n for One/Two/Three), per-DC majorities for the quorum levels, NotEnoughNodes only when really too few. Actor level: all ordered pairs of sub-layouts with selections before and after set_nodes: nothing outside the new layout is ever returned (cache included).",
        note="Random draws scripted through the cfg(datacake_verif) RNG shadow; raw values chosen so that every outcome for ranges <= 4 occurs. Layouts always contain the local node.",
        design="DESIGN.md section 3, C15",
    ),
    "C17": dict(
        category="model_checking",
        engine="E1 refinement",
        technique="explicit-state BFS over the reference model's state graph; every transition re-executed on a fresh real backend (MemStore, SQLite memory/file, LMDB) by shortest-path replay, full read surface compared (refinement check); reopen as a transition",
        text="Model = keyspace -> id -> (stamp, live bytes | tombstone). Alphabet: 2 keyspaces, ids {2, 2^63+1}, payloads {empty, x, 64 KiB}, 3 non-monotonic stamps, put / multi_put (incl. same id twice) / mark_as_tombstone (incl. absent ids and empty keyspaces) / mark_many / remove_tombstones (tombstoned ids only) / close-and-reopen. Every transition is executed on the real backend and get, multi_get, iter_metadata, keyspace list (asked before any other read, between the reads of two keyspaces and at the end, because a handle may answer from what it has touched so far) and raw SQLite rows must equal the model. Closure of the reduced alphabet on MemStore/SQLite and depth 3 with reopen on SQLite-file/LMDB (quick), full alphabet and LMDB/SQLite-file closure with reopen (thorough). Plus a subset-purge block over four ids {2^63+1, 2, 5, 9}: every assignment of the ids to absent/live/tombstone, every non-empty subset of the tombstones purged (both argument orders), on all four backends (968 scenarios). multi_get is asked for every non-empty subset of the id universe (which includes id 0) in varying order, with and without a never-existing id, and with request lists of exactly 8 and 9 ids: a document that was not asked for must not come back.",
        note="I/O failures and torn writes are not modelled. Keyspace-list oracle allows empty keyspaces to be listed or not.",
        design="DESIGN.md section 3, C17",
    ),
    "C01": dict(
        category="model_checking",
        engine="E1/E2 Layer B cluster (choice-point exploration by re-execution)",
        technique="stateless exploration of a real in-process cluster: exhaustive operation histories x deviation-bounded enumeration of every environment choice point (per-RPC deliver/lose request/lose reply incl. the requests of mid-history repair exchanges, extra flush/repair/restart events and one 55-minute jump (the history stays within one forgiveness period), a node unreachable until a chosen moment, late flushes, closing order) by re-execution from choice prefixes; plus all await-point interleavings (preemption-bounded) of two concurrent client operations",
        text="Real nodes (Clock, KeyspaceGroup + actors, in-process RPC services, selector, distributor behind a flush gate, poller one cycle at a time, public ReplicatedStoreHandle) are driven through every history of put/del/put_many/del_many (levels None/All, One in thorough) on 2 keys: quick = N=2 with 2 ops <=2 deviations and 3 ops <=1, N=3 2 ops <=1, MemStore variant, lagging-node block, clock-skew block, faulty-repair blocks (1 op <=4, 2 ops <=2 deviations), an anti-entropy-only block (every direct message and batch lost, 3 ops <=1 deviation), a block with put_many carrying one id twice, 55-minute-jump block, two scripted 'sharp driver' skeletons (a node misses the first operation, 55 minutes pass, it receives the second one, restarts or not) with <=1 deviation on top, concurrency block (two operations, or a repair cycle racing with an operation, fine-grained) with <=3 preemptions (~1 M executions, 13 s); thorough = N=2 up to 4 ops / 3 deviations, N=3 up to 3 ops, every special block deeper, <=4 preemptions. After the closing exchanges (every ordered pair, order itself a choice) and again after late batch flushes all nodes must return the same live documents, equal per id to the locally issued write with the greatest stamp (from the issuers' storage logs); set/store agreement (C02) is a side condition on every node. The reference (greatest stamp per id among the operations issued) is read from the storage logs; a stamp counts as issued at a node only if it reached that node's storage first (global sequence numbers over all stores), so a stamp altered on the wire is not mistaken for an issued operation. The concurrency block also races a repair exchange with a directly replicated write at the node being read while every distributor batch is lost (the direct message can land between the repairing node's Diff and the bulk request applying it). Further blocks take three single operations on one id with two deviations, and, with every batch lost, add late duplicates of earlier direct messages as explicit events (delay and duplication), also after the last operation.",
        note="Bounded: 2-3 nodes, 2 keys, <=4 operations, <=3 deviations; fixed membership; repair requests are faulted in dedicated N=2 blocks only; the closing exchanges always complete. In-process transport instead of HTTP/2.",
        design="DESIGN.md section 3, C01",
    ),
    "C06": dict(
        category="fault_enumeration",
        engine="E1 Layer B cluster",
        technique="exhaustive enumeration of layouts x issuer x level x operation kind x prior selection x every assignment of {ack, request lost, reply lost, storage failure} to the other nodes, executed through the public store handle on a real in-process cluster",
        text="5 (quick) / 11 (thorough) layouts of 2-4 nodes in 1-3 data centres (plus 6-, 7-, 8- and 9-node clusters with at most two non-acknowledging nodes), every issuer, all 8 levels, 2/4 operation kinds, fresh and pre-advanced selector cursors, all 6^(N-1) fault assignments ({ack, request lost, reply lost, storage failure, storage failure after the first document of a bulk call, node without the consistency service answering ServiceUnavailable}). At the moment the call returns every node's storage is read: Ok implies the issuer and at least the required number of other nodes (and per-DC majorities) hold the write or a newer one; a consistency error must report exactly the number of replicas that applied the write and had their reply delivered, the local write must be in place, and after the faults clear a batch flush plus a repair round must bring it to every node. After growth: the issuer selects at the level while the cluster has only k of its members (every k), the membership is set to the full layout and the write is issued at once; the requirements are those of the full layout. One replica may also be stalled (its storage call never returns) while the others acknowledge: the call may stay pending to the 60 s horizon, but if it returns, its answer is judged like any other.",
        note="The issuer's own storage does not fail. Selection failures are only checked to be justified (C15 decides selection).",
        design="DESIGN.md section 3, C06",
    ),
    "C02": dict(
        category="model_checking",
        engine="E1 by replay, Layer B single node",
        technique="explicit-state BFS by history replay on the real keyspace actor with a fault-injecting storage wrapper; state = (decoded Serialize reply, store rows); agreement oracle after every request",
        text="Requests Set/Del/MultiSet (one document, none, pairs incl. the same id twice in both stamp orders and a delete carrying exactly the stamp of a put of the same id, the same id twice followed by another document)/MultiDel/PurgeDeletes with stamps from a grid with >1h gaps, two origins, both sources, any arrival order, and per storage call the answers ok / fail-before / fail-after-k / fail-only-document-i (exactly the written ids reported; the last is a non-prefix partial failure) are sent to the real actor through its mailbox. After every request, successful or failed, live ids+stamps of the set must equal the store's documents, tombstones must equal the store's tombstones, and stored bytes must belong to the write whose stamp the row carries. Depth 3 on a harness map store and depth 2 on MemStore (quick), depth 4/3 (thorough). Plus purges of 3-130 (300) tombstones at once with the storage removing a prefix / all but one / nothing: agreement after the failed purge and after a second, healthy one.",
        note="Single-document storage calls fail atomically. (A duplicated id combined with a partial bulk failure used to be excluded as contract-ambiguous; including it exposed defect F15, fixed in 9588667.)",
        design="DESIGN.md section 3, C02",
    ),
    "C18": dict(
        category="model_checking",
        engine="E2, Layer B single node",
        technique="stateless schedule exploration of all await-point interleavings of k concurrent first users of a fresh keyspace on a real node (five real entry paths), and of users of an existing keyspace against the group's real tombstone sweep task, re-execution from choice prefixes",
        text="k=2 tasks (all 13 combinations of entry paths: group lookup + Set, public put, incoming ConsistencyService RPC, incoming GetState RPC, the node's own repair cycle against a peer holding the keyspace) over ALL interleavings, k=3 up to 2 (quick) / 6 (thorough) deviations, fine-grained mode (one task poll per step). After each execution the set returned by a new lookup must contain every acknowledged id and storage must hold exactly the acknowledged writes. Later uses: with the keyspace existing and the group's real hourly tombstone sweep task due, one or two tasks (four entry paths) interleaved with the sweep's steps one poll at a time (<=3/<=5 deviations); same oracle plus the earlier document must still be in the set. Two fresh keyspaces: each task makes the first use of its own fresh name (writer x {writer, GetState}, all schedules and fine-grained); each keyspace's set must hold its acknowledged ids. First uses of a fresh keyspace are also explored with the tombstone sweep coming due at a moment the explorer chooses (virtual time moving one hour is a schedulable step), so that the sweep can meet a keyspace that is registered but still empty. After every execution a fresh peer node runs one real repair cycle against the node and must end up holding every acknowledged write (what the node advertises through PollKeyspace and serves through GetState/FetchDocs); scenarios with a first user abandoned by its caller after k polls (k = 1..6 / 1..9) next to first users that complete.",
        note="Await-point granularity on a current-thread runtime; the property's window lies across awaits.",
        design="DESIGN.md section 3, C18",
    ),
    "C19": dict(
        category="exploration",
        engine="E4 + E1 by replay, Layer B",
        technique="bounded exhaustive enumeration of sender states (generator states, size grid covering every frame-length residue, origin/source families, 1k-20k entries) transferred through the real ReplicationService/ReplicationClient, plus BFS by replay over sender histories with a peer fetching after every request, plus stateless schedule exploration of a state request against concurrent writers",
        text="Static: ~1 700 (quick) / ~4 000 (thorough) distinct sender states are installed with add_state and fetched with the real get_state RPC; the received set must equal the sender's full snapshot (live, tombstones, per-source stamps, cut-offs) and decide a probe grid of will_apply/insert/delete identically. Dynamic: histories of sets, deletes and purges to depth 4/6 on a real node; after every request the state a peer obtains must equal the sender's Serialize reply at that moment. Undecodable states: a fake peer registered under the real service name and message path answers GetState with 244 (quick) / ~2 500 (thorough) blobs (empty, short, text, truncations and byte inversions of a genuine state on a grid - every position in thorough -, every single-bit flip of its last 24/200 bytes), each probed in its own child process; whenever rkyv's validating decoder refuses the bytes the client must return an error (not a state, not a panic or abort), and whenever it accepts them the client must return the same state; a control transfer of the genuine state guards the impersonation. State vs change stamp (E2 schedule exploration): a GetState request and one or two writers (put, del, put_many, incoming RPC) on one keyspace of a real node, all await-point interleavings (coarse unbounded; actor stepped one poll at a time with <=3/<=5 deviations): whenever the change stamp in the reply equals the stamp the node advertises at quiescence, the reply's live ids, tombstones and stamps must equal the node's.",
        note="In-process transport (single-chunk reply). Debug assertions on: misaligned/out-of-bounds decoding panics instead of being UB.",
        design="DESIGN.md section 3, C19",
    ),
    "C07": dict(
        category="fault_enumeration",
        engine="E1 by replay + crash points, Layer B single node",
        technique="exhaustive crash-point enumeration over request histories on the real keyspace group/actors: after every history and inside every possible next request after each document written by storage; restart = fresh KeyspaceGroup + real load_states_from_storage on the same store, compared with the store's rows",
        text="Histories over ~35 (quick) / ~65 (thorough) requests on two keyspaces (single and bulk, two ids sharing one stamp as put_many/del_many produce, same id twice, both sources, purge, transient storage failures of single requests, bulk calls failing part-way with a prefix or everything but the first document written) are enumerated breadth-first to depth 4/5 (state cap 30 k / 300 k, a cap hit is reported with the depth completed) and deduplicated by the node's whole state. At every crash point the rebuilt sets must hold exactly the live ids, tombstones and stamps storage holds for every keyspace storage lists, keyspaces with rows must be listed, the restarted node must keep agreeing with its store after one more request, every acknowledged request must be durable in storage (the newest acknowledged mutation per id, at that stamp or newer, unless behind the cut-off), and between requests the rebuilt set must accept every pool operation the pre-restart set accepted, for probes within one hour of everything the node has seen (a restart must not make the node refuse repair traffic inside the forgiveness period). Thorough adds file-backed SQLite and LMDB with a real stop (runtime dropped, LMDB worker thread joined, environment closed) and reopen; in-request crash points wait for the storage wrapper's park signal because these backends write on their own thread. Both tiers additionally run file-backed SQLite and LMDB (real close and reopen) over ids whose byte order and signed order differ from their numeric order {1, 256, 65536, 2^63+1} with every subset of them deleted; an acknowledged put must be reported by storage as a live document with its bytes and an acknowledged delete as a tombstone. The same block rewrites and deletes one id at stamps whose seconds have different numbers of decimal digits (99 999 990 s / 100 000 020 s).",
        note="Crash granularity = storage call boundaries and 'storage wrote k documents, set not yet updated'. Torn writes inside SQLite/LMDB are not modelled.",
        design="DESIGN.md section 3, C07",
    ),
    "C03": dict(
        category="model_checking",
        engine="E1 Layer A",
        technique="explicit-state enumeration of replica states (gap-free-prefix and one-forgiveness-period generators, closed under one level of merging) + real merge on all ordered pairs and on all ordered triples of one representative per (live, tombstone, cut-off) class",
        text="All replica states of two generators that realise exactly the property's precondition are enumerated (deduplicated by full snapshot); commutativity, idempotence, agreement with the newer-per-key reference on every ordered pair, associativity and transitive exchange rounds on every ordered triple of class representatives, all with the real OrSWotSet::merge and compared through lookups.",
        note="Bounded: 2 keys, 2-3 origins, <=4 operations per origin, 8-operation pool to depth 3 (quick) / 4 (thorough). Triples over class representatives only (capped at 100 / 250 per family; the cap is reported).",
        design="DESIGN.md section 3, C03",
    ),
    "C05": dict(
        category="model_checking",
        engine="E1 Layer A",
        technique="explicit-state enumeration: real diff vs independent reference on all ordered pairs of generator states (incl. purged replicas), diff applied actor-style in both batch orders, re-diff and mutual convergence checked",
        text="For every ordered pair of replica states of the C03 generators, and of a third family (every set reachable over a 12-operation pool with >1h gaps and two pairs of stamps exactly one hour apart - a peer stamp exactly on the cut-off - in any order on both sources, plus purged ones: the rule is stated for all reachable sets), the real OrSWotSet::diff is compared with a reference computed from the two snapshots (this decides 'lists a key exactly when ...'); the difference is applied as the keyspace actor applies a repair, in both batch orders, and the re-computed difference must be empty; both replicas then repair from each other and must expose the same live ids and stamps (the newer per key).",
        note="The actor's batch glue (filter by will_apply at batch start, sort by stamp, source 1) is restated in 12 lines; its agreement with the real actor is checked by C02/C01. Same bounds as C03.",
        design="DESIGN.md section 3, C05",
    ),
    "C08": dict(
        category="model_checking",
        engine="E1 Layer A",
        technique="local clauses: stateless DFS over timely delivery sequences with purge events on the real OrSWotSet (purge evaluated in every state, stale-operation probes); cluster clause: explicit-state DFS over a 2-3 replica model with explicit time and clock skew whose replicas are real OrSWotSet values, timeliness enforced by the explorer, differential oracle against a never-purging twin in every state",
        text="Local: in every state reached by timely delivery sequences (pool with >1h gaps so purges fire, both sources, up to 2 purges, depth 6/8) a purge leaves lookups and live entries unchanged, returns only genuine tombstones older than min-over-sources minus 1h, never lowers a cut-off, and every operation from the deleting node not newer than a purged delete is refused without changing the state, right after the purge and in every later state of the history. Cluster: events issue / direct delivery / repair (real diff + actor-style batches) / purge / 20-minute time advance with skew {0,20} min; the explorer refuses to advance time while an operation would stay undelivered beyond 1h minus the skew spread; every state after a purge is compared with a twin that saw the same events without purges, and is also closed (pending deliveries, two full repair rounds) and compared with twin and the last-writer-wins reference (quick: 3.8 M model states, 7 k closings). Third block (actor): on the real keyspace actor behind the fault-injecting store, after a prefix that makes two tombstones purgeable, every sequence (length 4 quick / 5 thorough) of purges whose storage call succeeds / is refused / is refused for one document / fails after one, re-writes and re-deletes of the purged id, a stale insert of the deleting node, another node's write and unrelated writes; a purge (failed or not) must leave the live documents of set and storage untouched, the stale insert never becomes visible, and the end result equals that of a never-purging twin actor. The actor block runs from three prefixes: the second early delete accepted, refused by the storage, refused and delivered again.",
        note="Cluster model replicas are real OrSWotSet values; the actor's batch glue is restated (bound to the code by C02/C01). Dedup key includes the path length because the event bound is a path property. 2-3 replicas, <=4 operations, 2 keys.",
        design="DESIGN.md section 3, C08",
    ),
    "C09": dict(
        category="model_checking",
        engine="E1 clock states",
        technique="explicit-state BFS over (clock value, newest stamp issued/accepted) driving the real HLCTimestamp::send/recv with injected wall-clock readings",
        text="BFS to depth 6 (quick) / 14 (thorough) over clock states; every transition picks one of 10 raw wall readings (stall, +1/3/4 ms, +1 s, -4 ms, -1 s, -2 h, drift boundary) and send or recv of a 64-message grid (same/older/newer time, counters 0/1/65534/65535, own/other node id, drift-4ms/drift/drift+4ms). Postconditions of the statement are evaluated on every transition, errors must leave the clock bit-identical and must be justified.",
        note="State merging by (clock, newest stamp) is sound because the oracle reads nothing else of the past. Wall clock injected through the cfg(datacake_verif) seam; quantisation to 4 ms stays real.",
        design="DESIGN.md section 3, C09",
    ),
    "C10": dict(
        category="exploration",
        engine="E4",
        technique="complete cartesian enumeration over boundary grids (round trips, all ordered pairs for ordering, all strings of a hostile grammar under catch_unwind)",
        text="900 (quick) / 9k (thorough) valid field tuples: new/accessors/u64/text/archived round trips and 4 ms quantisation; every ordered pair compared against lexicographic order; from_str on all 65 536 strings a-b-c-d over 16 field spellings plus structural variants and 2-/3-/4-byte characters inserted at or replacing every offset of five printed forms: Ok or Err, never a panic, accepted text re-prints to something that parses to the same value. Input-quantified property: exhaustive boundary enumeration is the fitting level.",
        note="Values between grid points are not covered.",
        design="DESIGN.md section 3, C10",
    ),
    "C04": dict(
        category="model_checking",
        engine="E4/E1 Layer A",
        technique="exhaustive enumeration of arrival orders x source assignments on the real OrSWotSet (stateless DFS), reference LWW oracle after every step",
        text="Every ordered selection (<=5 quick / <=6 thorough, <=7 for two sources in thorough; one duplicated delivery allowed) of a 10-operation pool, every source assignment, for 1, 2 and 3 sources, is executed on the real OrSWotSet; after every step the lookups must equal the greatest-timestamp reference and will_apply == return value == 'the key's view changed'. Bounded model checking of the real code is the right level: the property quantifies over arrival orders, and every defect found by reading needs <=3 operations.",
        note="Bounded: 2 keys, 2 origins, 10 fixed stamps (ties in counter-only and node-only included, gaps below and above one hour). Precondition enforced by harness bookkeeping. Trusts rustc and the harness's 30-line LWW oracle.",
        design="DESIGN.md section 3, C04",
    ),
}

PENDING_REASON = "check not built yet (work in progress in this session; see DESIGN.md section 7 for the build order)"

manifest = {
    "version": 1,
    "setup_cmd": "./check --build",
    "hooks": {
        "guard": "--cfg datacake_verif (rustc cfg, set only by /verif/harness/.cargo/config.toml)",
        "enable": "cd /verif/harness && cargo build --offline  (its .cargo/config.toml sets rustflags = [--cfg tokio_unstable, --cfg datacake_verif]; path dependencies on /repo/*)",
        "baseline_off_cmd": "python3 /verif/tools/baseline_off.py /repo",
        "source_commits": [],
        "add_only": True,
    },
    "engines": [
        {"name": "vkit", "path": "harness/vkit", "serves_properties": ALL,
         "kind_free_text": "hand-rolled engines: explicit-state BFS/DFS with replay, await-point schedule explorer for tokio tasks, input enumerators, evidence + known-findings plumbing"},
        {"name": "vsim", "path": "harness/vsim", "serves_properties": ["C14"],
         "kind_free_text": "turmoil-based fault-script enumerator over the real HTTP/2 stack (datacake-rpc feature `simulation`)"},
        {"name": "vcheck", "path": "harness/vcheck", "serves_properties": sorted(c for c in CHECKS if c != "C14"),
         "kind_free_text": "one module per property driving the real datacake code"},
    ],
    "checks": [],
    "not_applicable": [],
    "notes": "Exit codes: 0 held, 1 VIOLATION, 2 machinery failure. ./check always rebuilds from /repo's working tree.",
}

hooks_file = os.path.join(ROOT, "tools", "hook_commits.txt")
if os.path.exists(hooks_file):
    manifest["hooks"]["source_commits"] = [l.split()[0] for l in open(hooks_file) if l.strip() and not l.startswith("#")]

for pid in ALL:
    c = CHECKS.get(pid)
    if not c:
        manifest["not_applicable"].append({"property_id": pid, "reason": PENDING_REASON})
        continue
    manifest["checks"].append({
        "property_id": pid,
        "quick_cmd": f"./check {pid} quick",
        "thorough_cmd": f"./check {pid} thorough",
        "evidence_file": f"/verif/evidence/{pid}.json",
        "replay_cmd_template": "./check --replay {path}",
        "engine": c["engine"],
        "level_claimed": {"category": c["category"], "text": c["text"], "design_ref": c["design"]},
        "level_note": c["note"],
        "technique": c["technique"],
    })

json.dump(manifest, open(os.path.join(ROOT, "MANIFEST.json"), "w"), indent=1)
print("wrote MANIFEST.json:", len(manifest["checks"]), "checks,", len(manifest["not_applicable"]), "not claimed")
