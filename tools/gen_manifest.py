#!/usr/bin/env python3
"""Generates /verif/MANIFEST.json from the table below (single source of truth)."""
import json, os

ROOT = os.path.dirname(os.path.dirname(os.path.abspath(__file__)))

ALL = ["C%02d" % i for i in range(1, 20)]

# id -> dict(category, technique, text, note, engine, design)
CHECKS = {
    "C04": dict(
        category="model_checking",
        engine="E4/E1 Layer A",
        technique="exhaustive enumeration of arrival orders x source assignments on the real OrSWotSet (stateless DFS), reference LWW oracle after every step",
        text="Every ordered selection (<=4 quick / <=6 thorough, one duplicated delivery allowed) of a 10-operation pool, every source assignment, for 1, 2 and 3 sources, is executed on the real OrSWotSet; after every step the lookups must equal the greatest-timestamp reference and will_apply == return value == 'the key's view changed'. Bounded model checking of the real code is the right level: the property quantifies over arrival orders, and every defect found by reading needs <=3 operations.",
        note="Bounded: 2 keys, 2 origins, 10 fixed stamps (ties in counter-only and node-only included, gaps below and above one hour). Precondition enforced by harness bookkeeping. Trusts rustc and the harness's 30-line LWW oracle.",
        design="DESIGN.md section 3, C04",
    ),
}

PENDING_REASON = "check not built yet (work in progress in this session; see DESIGN.md section 7 for the build order)"

manifest = {
    "version": 1,
    "setup_cmd": "./check --build",
    "hooks": {
        "guard": "--cfg datacake_verif (rustc cfg, set only by /verif/harness/.cargo/config.toml)",
        "enable": "cd /verif/harness && cargo build --offline  (its .cargo/config.toml sets rustflags = [--cfg tokio_unstable, --cfg datacake_verif]; path dependencies on /repo/*)",
        "baseline_off_cmd": "python3 /verif/tools/baseline_off.py /repo",
        "source_commits": [],
        "add_only": True,
    },
    "engines": [
        {"name": "vkit", "path": "harness/vkit", "serves_properties": ALL,
         "kind_free_text": "hand-rolled engines: explicit-state BFS/DFS with replay, await-point schedule explorer for tokio tasks, input enumerators, evidence + known-findings plumbing"},
        {"name": "vcheck", "path": "harness/vcheck", "serves_properties": sorted(CHECKS),
         "kind_free_text": "one module per property driving the real datacake code"},
    ],
    "checks": [],
    "not_applicable": [],
    "notes": "Exit codes: 0 held, 1 VIOLATION, 2 machinery failure. ./check always rebuilds from /repo's working tree.",
}

hooks_file = os.path.join(ROOT, "tools", "hook_commits.txt")
if os.path.exists(hooks_file):
    manifest["hooks"]["source_commits"] = [l.split()[0] for l in open(hooks_file) if l.strip() and not l.startswith("#")]

for pid in ALL:
    c = CHECKS.get(pid)
    if not c:
        manifest["not_applicable"].append({"property_id": pid, "reason": PENDING_REASON})
        continue
    manifest["checks"].append({
        "property_id": pid,
        "quick_cmd": f"./check {pid} quick",
        "thorough_cmd": f"./check {pid} thorough",
        "evidence_file": f"/verif/evidence/{pid}.json",
        "replay_cmd_template": "./check --replay {path}",
        "engine": c["engine"],
        "level_claimed": {"category": c["category"], "text": c["text"], "design_ref": c["design"]},
        "level_note": c["note"],
        "technique": c["technique"],
    })

json.dump(manifest, open(os.path.join(ROOT, "MANIFEST.json"), "w"), indent=1)
print("wrote MANIFEST.json:", len(manifest["checks"]), "checks,", len(manifest["not_applicable"]), "not claimed")
