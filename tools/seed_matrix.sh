#!/bin/sh
# usage: tools/seed_matrix.sh [tier]
# Runs every seeded change (seeded/*/patch*.diff) and every catalogue mutant (mutants/*.patch)
# against the checks, in a scratch copy (never touching /repo or /verif's build output):
#   /tmp/matrix/repo  = git worktree of /repo HEAD
#   /tmp/matrix/verif = copy of /verif with the harness path dependencies pointing at it
# Writes /verif/seeded/MATRIX.tsv (patch, property checked, exit code, violation keys).
tier=${1:-quick}
M=/tmp/matrix
rm -rf $M/verif; mkdir -p $M
if [ -d $M/repo ]; then git -C /repo worktree remove --force $M/repo 2>/dev/null; rm -rf $M/repo; fi
git -C /repo worktree add -q --detach $M/repo HEAD || exit 2
rsync -a --exclude .target --exclude .git /verif/ $M/verif/
sed -i "s|/repo/|$M/repo/|g" $M/verif/harness/vcheck/Cargo.toml $M/verif/harness/vsim/Cargo.toml
sed -i "s|target-dir = \"/verif/.target\"|target-dir = \"$M/verif/.target\"|" $M/verif/harness/.cargo/config.toml
cd $M/verif && ./check --build || { echo "build failed"; exit 2; }
out=${MATRIX_OUT:-/verif/seeded/MATRIX.tsv}
# ONLY=<regex>: run only the patches whose path matches and replace their lines in the table
if [ -n "$ONLY" ] && [ -f $out ]; then
  grep -Ev -e "$ONLY" $out > $out.tmp; mv $out.tmp $out
else
  printf "patch\tchecks\tresult\n" > $out
fi
run() { # patch, checks...
  p=$1; shift
  if [ -n "$ONLY" ] && ! echo "$p" | grep -Eq -e "$ONLY"; then return; fi
  git -C $M/repo checkout -q -- . ; git -C $M/repo clean -fdq
  if ! git -C $M/repo apply "$p" 2>/dev/null; then printf "%s\t-\tDOES-NOT-APPLY\n" "$p" >> $out; return; fi
  for c in "$@"; do
    ./check $c $tier > $M/run.out 2>&1; code=$?
    keys=$(grep -E "^VIOLATION" $M/run.out | sed 's|.*replay=.*/||; s|.json||' | tr '\n' ',' )
    printf "%s\t%s\texit=%s %s\n" "$(echo $p | sed 's|/verif/||')" "$c" "$code" "$keys" >> $out
  done
  git -C $M/repo checkout -q -- . ; git -C $M/repo clean -fdq
}
related() { # property id -> checks to run
  case $1 in
    C01) echo "C01 C02 C05";; C02) echo "C02 C01 C07";; C03) echo "C03 C05";; C04) echo "C04 C03 C05 C01";; C05) echo "C05 C01";;
    C06) echo "C06 C15";; C07) echo "C07 C02";; C08) echo "C08 C02 C04";; C09) echo "C09 C11";; C10) echo "C10 C17";;
    C11) echo "C11 C09";; C12) echo "C12 C13";; C13) echo "C13";; C14) echo "C14";; C15) echo "C15 C06";; C16) echo "C16";;
    C17) echo "C17 C07";; C18) echo "C18 C01";; C19) echo "C19 C01";;
  esac
}
for d in /verif/seeded/C*/; do
  sid=$(basename $d); pid=${sid%%-*}
  case $sid in C07-c|C19-b|C02-e|C01-a) continue;; esac
  p=$d/patch.diff; [ -f $d/patch_rebased_on_F2.diff ] && p=$d/patch_rebased_on_F2.diff; [ -f $d/patch_rebased_on_F15.diff ] && p=$d/patch_rebased_on_F15.diff
  run $p $(related $pid)
done
for p in /verif/mutants/*.patch; do
  n=$(basename $p); 
  case $n in
    F01*) c="C04 C05 C01 C02";; F02*) c="C02 C01";; F03*) c="C10";; F04*) c="C12";; F05*) c="C13";; F06*) c="C14";; F07*) c="C15";; F08*) c="C15 C06";;
    F09*) c="C16";; M16*) c="C16";; F11*) c="C17";; F12*) c="C17 C01 C07";; F13*) c="C18 C01";; F14*) c="C19";; F15*) c="C02 C01";; M06*) c="C06";; *) c="";;
  esac
  [ -n "$c" ] && run $p $c
done
# behaviour-preserving refactors: every check must stay silent (exit 0)
# (NEUTRAL_CHECKS="C01 C05" restricts this section to some checks; with ONLY the table keeps the other lines)
for p in $(for d in /verif/neutral/N*/; do if [ -f $d/patch_rebased_on_F15.diff ]; then echo $d/patch_rebased_on_F15.diff; else echo $d/patch.diff; fi; done) /verif/neutral/B-C18c/patch.diff /verif/neutral/B-C12i/patch.diff /verif/neutral/B-C06i/patch.diff /verif/seeded/C01-a/patch_rebased_on_F2.diff /verif/seeded/C07-c/patch.diff /verif/seeded/C19-b/patch.diff /verif/seeded/C02-e/patch.diff; do
  run $p ${NEUTRAL_CHECKS:-C01 C02 C03 C04 C05 C06 C07 C08 C09 C10 C11 C12 C13 C14 C15 C16 C17 C18 C19}
done
git -C /repo worktree remove --force $M/repo; rm -rf $M/verif/.target
echo "matrix written to $out"
