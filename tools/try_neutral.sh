#!/bin/sh
# usage: tools/try_neutral.sh <patch> [tier]
# Applies a behaviour-preserving change to /repo, runs EVERY check, restores /repo and the
# evidence. Any exit code other than 0 is a false alarm (1) or a brittle harness (2) to look into.
p=$(realpath "$1"); tier=${2:-quick}
exec /verif/tools/try_mutant.sh "$p" "$tier" C01 C02 C03 C04 C05 C06 C07 C08 C09 C10 C11 C12 C13 C14 C15 C16 C17 C18 C19
