#!/bin/sh
# usage: tools/confirm_seed.sh <seed id> <property id> <scratch worktree> <out dir with patch.diff/demo.diff/notes.md> <demo command...>
# Confirms in the scratch worktree (never in /repo) that a seeded change (1) compiles and
# keeps the 69 stable tests passing, (2) makes the demonstration fail, and (3) that the
# demonstration passes without the change. Writes /verif/seeded/<seed id>/.
sid=$1; pid=$2; wt=$3; out=$4; shift 4
demo="$*"
dst=/verif/seeded/$sid
log=/verif/.target/confirm_$sid.log
mkdir -p "$dst" /verif/.target
: > "$log"
cd "$wt" || exit 2
git checkout -q -- . && git clean -fdq -e target
git apply "$out/patch.diff" || { echo "patch.diff does not apply" | tee -a "$log"; exit 2; }
git apply "$out/demo.diff"  || { echo "demo.diff does not apply" | tee -a "$log"; exit 2; }
echo "## demo WITH change: $demo" >> "$log"
( eval "$demo" ) >> "$log" 2>&1; with=$?
echo "## baseline WITH change" >> "$log"
python3 /verif/tools/baseline_off.py "$wt" >> "$log" 2>&1; base=$?
git apply -R "$out/patch.diff" || exit 2
echo "## demo WITHOUT change" >> "$log"
( eval "$demo" ) >> "$log" 2>&1; without=$?
git checkout -q -- . && git clean -fdq -e target
echo "seed=$sid demo_with_change_exit=$with baseline_with_change_exit=$base demo_without_change_exit=$without"
if [ $with -ne 0 ] && [ $base -eq 0 ] && [ $without -eq 0 ]; then
  cp "$out/patch.diff" "$out/demo.diff" "$dst/"; cp "$out/notes.md" "$dst/notes.md" 2>/dev/null
  grep -E "stable baseline|test result|MISSING" "$log" | head -20 > "$dst/confirmation.txt"
  python3 - "$sid" "$pid" "$demo" <<'PY'
import json, sys, subprocess
sid, pid, demo = sys.argv[1:4]
head = subprocess.run(["git","-C","/repo","rev-parse","--short","HEAD"],capture_output=True,text=True).stdout.strip()
meta = {"seed": sid, "breaks_property": pid, "repo_head_when_confirmed": head,
        "demo_cmd": demo,
        "confirmed": {"demo_fails_with_change": True, "demo_passes_without_change": True, "baseline_69_pass_with_change": True},
        "needs_to_manifest": "see notes.md", "detected_by": []}
json.dump(meta, open(f"/verif/seeded/{sid}/meta.json","w"), indent=1)
PY
  echo CONFIRMED
else
  echo "NOT CONFIRMED (see $log)"; tail -5 "$log"
fi
